"""Random Avro schema JSON for the schema properties (C11, C12, C13, C19):
a generator of specification-valid schemas, ONE ill-forming mutation of each kind
the C11 statement lists, cosmetic rewrites for C13, and the printer
Python JSON value -> Gallina term of type FA.model.Json.json.

All text is printable ASCII without double quote and backslash (so that Python's
f-string printing, json.dumps and the model's naive printer agree); every random
choice comes from the random.Random passed in."""
import copy, math, struct

PRIMS = ["null", "boolean", "int", "long", "float", "double", "bytes", "string"]
RESERVED = {"type", "name", "namespace", "fields", "items", "size", "symbols", "values", "doc",
            "aliases", "default", "order", "logicalType", "precision", "scale",
            "__fastavro_parsed", "__named_schemas"}
TEXT_ALPHABET = "abcdefghijklmnopqrstuvwxyzABCDEFGHIJKLMNOPQRSTUVWXYZ0123456789 _-.,:;!?#$%&'()*+/<=>@[]^`{|}~"
IDENT1 = "abcdefghijklmnopqrstuvwxyzABCDEFGHIJKLMNOPQRSTUVWXYZ_"
IDENT = IDENT1 + "0123456789"
AVRO_WORDS = set(PRIMS) | {"record", "enum", "fixed", "array", "map", "union", "error", "request", "error_union"}


# ------------------------------------------------------------------ Gallina printer
def coq_str(s):
    assert isinstance(s, str)
    for c in s:
        if not (32 <= ord(c) < 127) or c in '"\\':
            raise ValueError("text outside the modelled alphabet: %r" % s)
    return '"' + s + '"'


def to_coq(j):
    """Python JSON value -> Gallina term (type json)."""
    if j is None:
        return "JNull"
    if j is True:
        return "(JBool true)"
    if j is False:
        return "(JBool false)"
    if isinstance(j, int):
        return "(JInt (%d))" % j
    if isinstance(j, float):
        return "(JFloat %d)" % struct.unpack("<Q", struct.pack("<d", j))[0]
    if isinstance(j, str):
        return "(JStr %s)" % coq_str(j)
    if isinstance(j, (list, tuple)):
        return "(JArr [" + "; ".join(to_coq(x) for x in j) + "])"
    if isinstance(j, dict):
        return "(JObj [" + "; ".join("(%s, %s)" % (coq_str(k), to_coq(v)) for k, v in j.items()) + "])"
    raise TypeError(type(j))


# ------------------------------------------------------------------ naming rules (the specification's)
def spec_fullname(ns, node):
    name = node["name"]
    if "." in name:
        return name.rsplit(".", 1)[0], name
    sp = node["namespace"] if "namespace" in node else ns
    sp = sp or ""
    return sp, (sp + "." + name if sp else name)


def max_precision(size):
    """largest p with 10**p <= 2**(8*size-1)  (exact)"""
    n = 8 * size - 1
    if n < 0:
        return -1
    p = 0
    while 10 ** (p + 1) <= 2 ** n:
        p += 1
    return p


# ------------------------------------------------------------------ fixed corpus
# named types with "namespace": "" / null defined INSIDE a type of a non-empty namespace, children of such a nested
# record (they inherit the null namespace), later by-name references from null-namespace contexts
NULL_NS_CORPUS = [
    {"type": "record", "name": "Outer", "namespace": "org.acme", "fields": [
        {"name": "state", "type": {"type": "enum", "name": "State", "namespace": "", "symbols": ["ON", "OFF"]}},
        {"name": "inner", "type": {"type": "record", "name": "Inner", "namespace": "", "fields": [
            {"name": "kid", "type": {"type": "fixed", "name": "Kid", "size": 2}},
            {"name": "s", "type": "State", "default": "ON"},
            {"name": "k2", "type": ["null", "Kid"]},
            {"name": "again", "type": {"type": "array", "items": "Inner"}}]}},
        {"name": "own", "type": {"type": "enum", "name": "State", "symbols": ["X"]}},
        {"name": "o2", "type": "State"}]},
    {"type": "record", "name": "org.acme.P", "fields": [
        {"name": "crc", "type": {"type": "fixed", "name": "Crc", "namespace": None, "size": 4}},
        {"name": "q", "type": {"type": "record", "name": "Q", "namespace": None, "fields": [
            {"name": "c", "type": "Crc"}, {"name": "e", "type": {"type": "enum", "name": "E", "symbols": ["A"]}}]}},
        {"name": "m", "type": {"type": "map", "values": "org.acme.P"}}]},
    [{"type": "record", "name": "R", "namespace": "a.b", "fields": [
        {"name": "f", "type": {"type": "enum", "name": "Color", "namespace": "", "symbols": ["RED"]}},
        {"name": "g", "type": {"type": "record", "name": "Sub", "namespace": "", "fields": [{"name": "c", "type": "Color"}]}}]},
     "Color", "Sub", "null"],
    # b.X and a.b.X both defined; inside namespace a the dotted reference "b.X" denotes b.X, "X" inside a.b denotes a.b.X
    {"type": "record", "name": "a.R", "fields": [
        {"name": "x", "type": {"type": "enum", "name": "b.X", "symbols": ["P"]}},
        {"name": "y", "type": {"type": "enum", "name": "X", "namespace": "a.b", "symbols": ["Q", "R"]}},
        {"name": "z", "type": "b.X", "default": "P"},
        {"name": "w", "type": ["null", "a.b.X"]},
        {"name": "s", "type": {"type": "record", "name": "a.b.S", "fields": [{"name": "x", "type": "X"}, {"name": "bx", "type": "b.X"}]}}]},
    # the same simple name in the null namespace and in a namespace: "X" inside a denotes a.X
    {"type": "record", "name": "X", "fields": [
        {"name": "y", "type": {"type": "record", "name": "a.Y", "fields": [
            {"name": "e", "type": {"type": "enum", "name": "X", "symbols": ["P", "Q"]}},
            {"name": "r", "type": "X", "default": "Q"}]}},
        {"name": "self", "type": ["null", "X"]}]},
    {"type": "array", "items": {"type": "record", "name": "n.T", "fields": [
        {"name": "x", "type": {"type": "fixed", "name": "T", "namespace": "", "size": 1}},
        {"name": "y", "type": ["null", "n.T"]},
        {"name": "z", "type": {"type": "record", "name": "U", "namespace": "", "fields": [{"name": "t", "type": "T"}]}}]}},
]


# ------------------------------------------------------------------ generator of valid schemas
class Gen:
    def __init__(self, rng, budget=12, int_float_defaults=True):
        self.rng = rng
        self.budget = budget
        self.defined = {}          # fullname -> (kind, node)   in document order
        self.counter = 0
        self.int_float_defaults = int_float_defaults
        self.stats = {}

    def note(self, k):
        self.stats[k] = self.stats.get(k, 0) + 1

    def ident(self):
        r = self.rng
        self.counter += 1
        while True:
            s = r.choice(IDENT1) + "".join(r.choice(IDENT) for _ in range(r.randrange(0, 5)))
            if s not in AVRO_WORDS:
                return s + str(self.counter) if r.random() < 0.7 else s + "_" + str(self.counter)

    def text(self, lo=0, hi=12):
        r = self.rng
        return "".join(r.choice(TEXT_ALPHABET) for _ in range(r.randrange(lo, hi + 1)))

    def namespace(self, ns):
        r = self.rng
        k = r.random()
        if ns and k < 0.35:
            return ns + "." + r.choice(["sub", "x", "inner", self.ident()])
        if ns and k < 0.5:
            return ns
        if ns and k < 0.6 and "." in ns:
            return ns.rsplit(".", 1)[0]
        return ".".join(r.choice(["com", "org", "n", "ns", "a", "b", self.ident()]) for _ in range(r.randrange(1, 4)))

    def json_value(self, depth=0):
        r = self.rng
        k = r.randrange(8 if depth < 2 else 6)
        if k == 0: return None
        if k == 1: return r.random() < 0.5
        if k == 2: return r.choice([0, 1, -1, 7, 2 ** 31, -2 ** 63, 10 ** 20, r.randrange(-1000, 1000)])
        if k == 3: return r.choice([0.5, -1.25, 1e300, 3.0, -0.0])
        if k in (4, 5): return self.text()
        if k == 6: return [self.json_value(depth + 1) for _ in range(r.randrange(0, 3))]
        return {self.text(1, 5) + str(i): self.json_value(depth + 1) for i in range(r.randrange(0, 3))}

    def custom_attrs(self, node):
        r = self.rng
        for _ in range(r.choice([0, 0, 0, 1, 1, 2])):
            k = r.choice(["x", "custom", "java-class", "meta", "avro.java.string", "k"]) + self.text(0, 3).replace(" ", "")
            if k not in RESERVED and k not in node:
                node[k] = self.json_value()
                self.note("custom-attr")

    def shuffle_keys(self, node):
        items = list(node.items())
        self.rng.shuffle(items)
        return dict(items)

    # ---- names
    def name_attrs(self, ns):
        """choose a spelling for a fresh named type; returns (attrs, namespace, fullname)"""
        r = self.rng
        for _ in range(50):
            short = self.ident()
            if self.defined and r.random() < 0.3:
                # the same simple name in several namespaces (incl. the null one): only the full names differ
                short = r.choice(list(self.defined)).rsplit(".", 1)[-1]
                self.note("name:simple-name-reused")
            dotted = [d for d in self.defined if "." in d]
            if ns and dotted and r.random() < 0.12:
                # b.X exists: also define <ns>.b.X, so that the dotted reference "b.X" made inside <ns> could be
                # (wrongly) read relative to the enclosing namespace
                f0 = r.choice(dotted)
                sp0, short0 = f0.rsplit(".", 1)
                attrs = {"name": short0, "namespace": ns + "." + sp0} if r.random() < 0.5 else {"name": ns + "." + f0}
                if ns + "." + f0 not in self.defined:
                    self.note("name:dotted-clash-with-relative-reading")
                    return attrs, ns + "." + sp0, ns + "." + f0
            k = r.random()
            if ns and r.random() < 0.22:
                k = 0.8 + 0.2 * r.random()          # inside a namespace: more often an explicit "" / null namespace
            if k < 0.4:
                attrs = {"name": short}
                self.note("name:inherit")
            elif k < 0.6:
                attrs = {"name": short, "namespace": self.namespace(ns)}
                self.note("name:namespace-attr")
            elif k < 0.8:
                attrs = {"name": self.namespace(ns) + "." + short}
                if r.random() < 0.3:
                    attrs["namespace"] = self.namespace(ns)      # ignored: a dotted name wins
                self.note("name:dotted")
            elif k < 0.9:
                attrs = {"name": short, "namespace": ""}
                self.note("name:empty-namespace")
            else:
                attrs = {"name": short, "namespace": None}
                self.note("name:null-namespace")
            sp, full = spec_fullname(ns, attrs)
            if full not in self.defined and full not in AVRO_WORDS:
                return attrs, sp, full
        raise RuntimeError("no fresh name")

    def ref_spelling(self, ns, full):
        """a spelling of a reference to full that is valid inside namespace ns, or None"""
        r = self.rng
        if "." in full:
            sp, short = full.rsplit(".", 1)
            if sp == ns and short not in PRIMS and r.random() < 0.6:
                self.note("ref:short")
                return short
            self.note("ref:full")
            return full
        if ns == "" and full not in PRIMS:
            self.note("ref:null-namespace")
            return full
        return None

    # ---- types
    def schema(self, ns, depth, in_union=False):
        r = self.rng
        self.budget -= 1
        leaf = depth <= 0 or self.budget <= 0
        choices = ["prim"] * 4 + ["primdict"] * 2 + ["enum", "fixed"]
        if self.defined:
            choices += ["ref"] * 3
        if not leaf:
            choices += ["record"] * 4 + ["array"] * 2 + ["map"] * 2
            if not in_union:
                choices += ["union"] * 3
        k = r.choice(choices)
        if k == "ref":
            full = r.choice(list(self.defined))
            amb = [d for d in self.defined if "." in d and ns and (ns + "." + d) in self.defined]
            if amb and r.random() < 0.6:
                full = r.choice(amb)                  # a dotted name that ALSO exists relative to the enclosing namespace
                self.note("ref:dotted-also-relative")
                return full
            nulls = [d for d in self.defined if "." not in d]
            if ns == "" and nulls and r.random() < 0.5:
                full = r.choice(nulls)                # from a null-namespace context: prefer the null-namespace types
            sp = self.ref_spelling(ns, full)
            if sp is None:
                k = "prim"
            else:
                return sp
        if k == "prim":
            self.note("prim")
            return r.choice(PRIMS)
        if k == "primdict":
            return self.primdict()
        if k == "enum":
            return self.enum(ns)
        if k == "fixed":
            return self.fixed(ns)
        if k == "record":
            return self.record(ns, depth)
        if k == "array":
            self.note("array")
            node = {"type": "array", "items": self.schema(ns, depth - 1)}
            self.custom_attrs(node)
            return self.shuffle_keys(node) if r.random() < 0.3 else node
        if k == "map":
            self.note("map")
            node = {"type": "map", "values": self.schema(ns, depth - 1)}
            self.custom_attrs(node)
            return self.shuffle_keys(node) if r.random() < 0.3 else node
        return self.union(ns, depth)

    def primdict(self):
        r = self.rng
        self.note("primdict")
        t = r.choice(PRIMS)
        node = {"type": t}
        k = r.random()
        if k < 0.5:
            lt = {"int": ["date", "time-millis"], "long": ["timestamp-millis", "timestamp-micros", "time-micros",
                                                           "local-timestamp-millis"],
                  "string": ["uuid"], "bytes": ["decimal"]}.get(t)
            if lt:
                node["logicalType"] = r.choice(lt)
                if node["logicalType"] == "decimal":
                    self.decimal_attrs(node, None)
                self.note("logical:" + node["logicalType"])
            elif r.random() < 0.3:
                node["logicalType"] = r.choice(["unknown-logical", "date", "decimal-ish"])
                self.note("logical:other")
        self.custom_attrs(node)
        return self.shuffle_keys(node) if r.random() < 0.3 else node

    def decimal_attrs(self, node, size):
        r = self.rng
        mp = 40 if size is None else max_precision(size)
        if mp < 1:
            node.pop("logicalType", None)
            return
        p = r.choice([1, mp, r.randrange(1, mp + 1), r.randrange(1, mp + 1)])
        node["precision"] = p
        if r.random() < 0.7:
            node["scale"] = r.choice([0, p, r.randrange(0, p + 1)])
        self.note("decimal")

    def enum(self, ns):
        r = self.rng
        self.note("enum")
        attrs, sp, full = self.name_attrs(ns)
        n = r.choice([1, 1, 2, 3, 5])
        syms = []
        while len(syms) < n:
            s = r.choice(IDENT1) + "".join(r.choice(IDENT) for _ in range(r.randrange(0, 4)))
            if syms and r.random() < 0.2:
                s = r.choice(syms).swapcase()          # symbols differing only in letter case are distinct
            if s not in syms:
                syms.append(s)
        node = {"type": "enum", **attrs, "symbols": syms}
        if r.random() < 0.4:
            node["default"] = r.choice(syms)
            self.note("enum-default")
        self.decorate_named(node)
        self.defined[full] = ("enum", node)
        return self.shuffle_keys(node) if r.random() < 0.3 else node

    def fixed(self, ns):
        r = self.rng
        self.note("fixed")
        attrs, sp, full = self.name_attrs(ns)
        size = r.choice([0, 1, 2, 4, 8, 16, r.randrange(0, 41)])
        node = {"type": "fixed", **attrs, "size": size}
        if r.random() < 0.35:
            size = r.choice([1, 2, 3, 4, 8, 12, 16, 20, 32, 48, 63, 64, r.randrange(1, 65)])
            node["size"] = size
            node["logicalType"] = "decimal"
            self.decimal_attrs(node, size)
            if r.random() < 0.5 and "logicalType" in node:
                node["precision"] = max_precision(size)      # the boundary of the floating-point formula
                if "scale" in node:
                    node["scale"] = min(node["scale"], node["precision"])
                self.note("decimal-max-precision")
        self.decorate_named(node)
        self.defined[full] = ("fixed", node)
        return self.shuffle_keys(node) if r.random() < 0.3 else node

    def decorate_named(self, node):
        r = self.rng
        if r.random() < 0.3:
            node["doc"] = self.text()
            self.note("doc")
        if r.random() < 0.25:
            node["aliases"] = [self.ident() for _ in range(r.randrange(0, 3))]
            self.note("aliases")
        self.custom_attrs(node)

    def record(self, ns, depth):
        r = self.rng
        self.note("record")
        attrs, sp, full = self.name_attrs(ns)
        node = {"type": "record", **attrs}
        self.decorate_named(node)
        self.defined[full] = ("record", node)        # visible to its own fields (recursion)
        fields = []
        nf = r.choice([0, 1, 1, 2, 2, 3, 4, 6])
        fnames = set()
        for _ in range(nf):
            if self.budget <= -8:
                break
            fname = self.ident()
            fnames.add(fname)
            # a direct self-reference is legal only behind a union / array / map
            ftype = self.schema(sp, depth - 1)
            if isinstance(ftype, str) and ftype not in PRIMS and self.resolve(sp, ftype) == full:
                ftype = r.choice([["null", ftype], {"type": "array", "items": ftype}, {"type": "map", "values": ftype}])
                self.note("recursive-ref")
            fd = {"name": fname, "type": ftype}
            if r.random() < 0.45:
                ok, dv = self.default_for(sp, ftype, 0)
                if ok:
                    fd["default"] = dv
                    self.note("field-default")
            if r.random() < 0.2:
                fd["doc"] = self.text()
            if r.random() < 0.15:
                fd["aliases"] = [self.ident() for _ in range(r.randrange(0, 3))]
            if r.random() < 0.15:
                fd["order"] = r.choice(["ascending", "descending", "ignore"])
            if r.random() < 0.15:
                self.custom_attrs(fd)
            fields.append(self.shuffle_keys(fd) if r.random() < 0.3 else fd)
        node["fields"] = fields
        return self.shuffle_keys(node) if r.random() < 0.3 else node

    def resolve(self, ns, ref):
        if "." in ref or not ns:
            return ref
        return ns + "." + ref

    def union(self, ns, depth):
        r = self.rng
        self.note("union")
        n = r.choice([1, 2, 2, 3, 4, 5])
        members, seen = [], set()
        for _ in range(n):
            before = set(self.defined)
            m = self.schema(ns, depth - 1, in_union=True)
            key = self.union_key(ns, m)
            if key in seen:
                for k in list(self.defined):        # the dropped member's definitions do not exist
                    if k not in before:
                        del self.defined[k]
                continue
            seen.add(key)
            members.append(m)
        if r.random() < 0.4 and "null" not in seen:
            # the null branch in string form or, sometimes, in dict form (a union default of null must find it either way)
            members.insert(0, {"type": "null"} if r.random() < 0.3 else "null")
        return members

    def union_key(self, ns, m):
        if isinstance(m, str):
            return m if m in PRIMS else self.resolve(ns, m)
        t = m["type"]
        if t in ("record", "enum", "fixed"):
            return spec_fullname(ns, m)[1]
        return t

    # ---- defaults by JSON type
    def kind_of(self, ns, t):
        """'null','boolean','int','float','str','array','map','record','union' """
        if isinstance(t, list):
            return "union"
        if isinstance(t, dict):
            t = t["type"]
            if t in ("record", "error"): return "record"
            if t in ("enum", "fixed"): return "str"
            if t in ("array", "map"): return t
        elif t not in PRIMS:
            k = self.defined[self.resolve(ns, t)][0]
            return "record" if k == "record" else "str"
        return {"null": "null", "boolean": "boolean", "int": "int", "long": "int", "float": "float", "double": "float",
                "bytes": "str", "string": "str"}[t]

    def default_for(self, ns, t, depth):
        r = self.rng
        k = self.kind_of(ns, t)
        if k == "null": return True, None
        if k == "boolean": return True, r.random() < 0.5
        if k == "int":
            name = t if isinstance(t, str) else t.get("type")
            if name == "long":
                return True, r.choice([0, 1, -1, 42, 2 ** 31, 2 ** 63 - 1, -2 ** 63, r.randrange(-10 ** 12, 10 ** 12)])
            return True, r.choice([0, 1, -1, 42, 2 ** 31 - 1, -2 ** 31, r.randrange(-10 ** 6, 10 ** 6)])
        if k == "float":
            if self.int_float_defaults and r.random() < 0.25:
                self.note("float-default-int-literal")
                return True, r.choice([0, 1, -3, 10 ** 6])
            return True, r.choice([0.5, -1.25, 1e300, 3.0, -0.0, 1e-320, 2.5e10])
        if k == "str":
            if isinstance(t, dict) and t["type"] == "enum":
                return True, r.choice(t["symbols"]) if t["symbols"] else ""
            if isinstance(t, str) and t not in PRIMS:
                kind, node = self.defined[self.resolve(ns, t)]
                if kind == "enum":
                    return True, r.choice(node["symbols"])
            return True, self.text(0, 6)
        if k == "array": return True, []
        if k == "map": return True, {}
        if k == "record": return True, {}
        if k == "union":
            if not t: return False, None
            return self.default_for(ns, t[0] if r.random() < 0.7 else r.choice(t), depth + 1)
        return False, None


def gen_schema(rng, top_union_ok=True, int_float_defaults=True):
    """returns (schema, generator) ; the schema is specification-valid"""
    g = Gen(rng, budget=rng.choice([3, 6, 10, 16, 24]), int_float_defaults=int_float_defaults)
    depth = rng.choice([0, 1, 2, 3, 4])
    k = rng.random()
    if k < 0.12 and top_union_ok:
        s = g.union("", depth)
        g.note("top:union")
    elif k < 0.8:
        s = g.record("", max(depth, 1))
        g.note("top:record")
    else:
        s = g.schema("", depth)
        g.note("top:other")
    return s, g


# ------------------------------------------------------------------ walking schema positions
def walk(schema, ns="", path=(), in_top_union=None):
    """yield (path, node, ns, top_member) for every schema position in document order;
    path is a tuple of keys/indices from the root."""
    top = in_top_union
    yield path, schema, ns, top
    if isinstance(schema, list):
        for i, m in enumerate(schema):
            yield from walk(m, ns, path + (i,), i if (path == () and top is None) else top)
    elif isinstance(schema, dict):
        t = schema.get("type")
        if t == "array" and "items" in schema:
            yield from walk(schema["items"], ns, path + ("items",), top)
        elif t == "map" and "values" in schema:
            yield from walk(schema["values"], ns, path + ("values",), top)
        elif t in ("record", "error"):
            sp = spec_fullname(ns, schema)[0] if isinstance(schema.get("name"), str) else ns
            for i, f in enumerate(schema.get("fields", [])):
                if isinstance(f, dict) and "type" in f:
                    yield from walk(f["type"], sp, path + ("fields", i, "type"), top)


def get_at(schema, path):
    for k in path:
        schema = schema[k]
    return schema


def set_at(schema, path, value):
    if not path:
        return value
    parent = get_at(schema, path[:-1])
    parent[path[-1]] = value
    return schema


def named_defs(schema):
    return [(p, n, ns, top) for p, n, ns, top in walk(schema)
            if isinstance(n, dict) and n.get("type") in ("record", "enum", "fixed", "error") and isinstance(n.get("name"), str)]


def fields_of(schema):
    out = []
    for p, n, ns, top in walk(schema):
        if isinstance(n, dict) and n.get("type") in ("record", "error") and isinstance(n.get("name"), str):
            sp = spec_fullname(ns, n)[0]
            for i, f in enumerate(n.get("fields", [])):
                out.append((p + ("fields", i), f, sp))
    return out


# ------------------------------------------------------------------ ill-forming mutations (C11)
MUTATIONS = ["undefined-ref", "duplicate-name", "missing-name", "malformed-symbol", "duplicate-symbol",
             "enum-default-not-symbol", "default-wrong-type", "decimal-precision-negative", "decimal-precision-non-integer",
             "decimal-scale-negative", "decimal-scale-non-integer", "decimal-scale-above-precision",
             "decimal-precision-too-large", "decimal-precision-falsy-non-integer", "decimal-scale-falsy-non-integer"]


def wrong_default(rng, g, ns, t):
    """a default whose JSON type matches no branch of t (by the specification), or None if every JSON type matches"""
    def kinds(t):
        k = g.kind_of(ns, t)
        if k == "union":
            s = set()
            for m in t:
                s |= kinds(m)
            return s
        return {k}
    try:
        ks = kinds(t)
    except KeyError:
        return None
    pool = []
    if "null" not in ks: pool.append(None)
    if "boolean" not in ks: pool.append(rng.random() < 0.5)
    if "int" not in ks and "float" not in ks: pool += [rng.choice([0, 5, -7])]
    if "float" not in ks: pool += [rng.choice([1.5, -2.25])]
    if "str" not in ks: pool += [rng.choice(["abc", "", "x y", "1.5", "nan", "12", "-inf", "1e5", "1_0", " 7 "])]
    if "array" not in ks: pool += [rng.choice([[], [1]])]
    if "map" not in ks and "record" not in ks: pool += [rng.choice([{}, {"a": 1}])]
    if not pool:
        return None
    return ("v", rng.choice(pool))


def mutate(rng, schema, g, kind):
    """returns (mutated schema, description) or None when the mutation does not apply"""
    s = copy.deepcopy(schema)
    if kind == "undefined-ref" and rng.random() < 0.35:
        # an undotted reference, from inside a namespace N, to a name that exists only in the null namespace
        # (the specification reads it as N.<name>, which is not defined)
        defs = {spec_fullname(ns, n)[1] for p, n, ns, top in named_defs(s)}
        nulls = [d for d in defs if "." not in d]
        pos = [(p, n, ns) for p, n, ns, top in walk(s) if isinstance(n, str) and ns and p != ()]
        cands = [(p, ns, d) for p, n, ns in pos for d in nulls if ns + "." + d not in defs]
        if cands:
            p, ns, d = rng.choice(cands)
            return set_at(s, p, d), dict(kind=kind, path=list(p), name=ns + "." + d, null_namespace_name_from_namespace=True)
    if kind == "undefined-ref":
        pos = [(p, n, ns) for p, n, ns, top in walk(s) if isinstance(n, str)]
        if not pos:
            pos = [(p, n, ns) for p, n, ns, top in walk(s) if not isinstance(n, list)][:1]
        p, n, ns = rng.choice(pos)
        new = rng.choice(["Undefined" + str(rng.randrange(100)), "no.such.Type", "x.Missing" + str(rng.randrange(100))])
        if p == ():
            return new, dict(kind=kind, path=list(p), name=new)
        return set_at(s, p, new), dict(kind=kind, path=list(p), name=new)
    if kind == "duplicate-name":
        defs = named_defs(s)
        if not defs:
            return None
        dp, dn, dns, dtop = rng.choice(defs)
        full = spec_fullname(dns, dn)[1]
        slots = [(p, n, ns, top) for p, n, ns, top in walk(s)
                 if p != () and not isinstance(n, list) and p[:len(dp)] != dp or (p[:len(dp)] == dp and len(p) > len(dp) and not isinstance(n, list))]
        slots = [x for x in slots if x[0] != dp and x[0] != ()]
        if not slots:
            return None
        p, n, ns, top = rng.choice(slots)
        dup = {"type": "fixed", "name": full, "size": 1} if "." in full else {"type": "fixed", "name": full, "namespace": "", "size": 1}
        if rng.random() < 0.3:
            dup = {"type": "enum", "symbols": ["A"], **{k: v for k, v in dup.items() if k in ("name", "namespace")}}
        across_top = isinstance(s, list) and top is not None and dtop is not None and top != dtop
        # the replaced position must not remove the original definition
        if dp[:len(p)] == p:
            return None
        return set_at(s, p, dup), dict(kind=kind, path=list(p), name=full, across_top_level_union_members=across_top)
    if kind == "missing-name":
        defs = named_defs(s)
        if not defs:
            return None
        p, n, ns, top = rng.choice(defs)
        del n["name"]
        return s, dict(kind=kind, path=list(p))
    if kind in ("malformed-symbol", "duplicate-symbol", "enum-default-not-symbol"):
        enums = [(p, n) for p, n, ns, top in named_defs(s) if n["type"] == "enum"]
        if not enums:
            return None
        p, n = rng.choice(enums)
        syms = n["symbols"]
        if kind == "malformed-symbol":
            bad = rng.choice(["1a", "a-b", "", "a b", "x.y", "9", "a$", 5, None, True])
            if syms and rng.random() < 0.7:
                syms[rng.randrange(len(syms))] = bad
            else:
                syms.insert(rng.randrange(len(syms) + 1), bad)
        elif kind == "duplicate-symbol":
            if not syms:
                return None
            syms.insert(rng.randrange(len(syms) + 1), rng.choice(syms))
        else:
            n["default"] = rng.choice(["NotASymbol", "", 5, None] + ([syms[0].lower() + "_"] if syms else []))
        return s, dict(kind=kind, path=list(p))
    if kind == "default-wrong-type":
        fs = fields_of(s)
        rng.shuffle(fs)
        for p, f, sp in fs:
            w = wrong_default(rng, g, sp, f["type"])
            if w is not None:
                f["default"] = w[1]
                return s, dict(kind=kind, path=list(p), field_type=copy.deepcopy(f["type"]), default=w[1])
        return None
    if kind.startswith("decimal-"):
        decs = [(p, n) for p, n, ns, top in walk(s) if isinstance(n, dict) and n.get("logicalType") == "decimal"]
        if not decs:
            # annotate a bytes leaf / a fixed
            cands = [(p, n) for p, n, ns, top in walk(s) if (n == "bytes" and p != ()) or (isinstance(n, dict) and n.get("type") in ("bytes", "fixed") and "logicalType" not in n)]
            if not cands:
                return None
            p, n = rng.choice(cands)
            if n == "bytes":
                n = {"type": "bytes"}
                set_at(s, p, n)
            n["logicalType"] = "decimal"
            n["precision"] = 1 if n["type"] == "bytes" or n.get("size", 0) >= 1 else 1
            n["scale"] = 0
            if n["type"] == "fixed" and max_precision(n["size"]) < 1:
                n["size"] = 4
        else:
            p, n = rng.choice(decs)
        if kind == "decimal-precision-negative":
            n["precision"] = rng.choice([-1, -5, -10 ** 9])
        elif kind == "decimal-precision-non-integer":
            n["precision"] = rng.choice([1.5, "3", [2], {"a": 1}, 2.0])
        elif kind == "decimal-scale-negative":
            n["scale"] = rng.choice([-1, -4])
        elif kind == "decimal-scale-non-integer":
            n["scale"] = rng.choice([0.5, "1", [1], 1.0])
        elif kind == "decimal-precision-falsy-non-integer":
            # non-integers that are falsy in Python, and booleans (an int subclass); null counts as "absent"
            n["precision"] = rng.choice(["", True, False, 0.0, [], {}])
            n.pop("scale", None)
        elif kind == "decimal-scale-falsy-non-integer":
            n["scale"] = rng.choice(["", True, False, 0.0, [], {}])
        elif kind == "decimal-scale-above-precision":
            n["scale"] = n["precision"] + rng.choice([1, 2, 10])
        else:
            if n["type"] != "fixed":
                fx = [(p2, n2) for p2, n2 in decs if n2["type"] == "fixed"] if decs else []
                if not fx:
                    return None
                p, n = rng.choice(fx)
            n["precision"] = max_precision(n["size"]) + rng.choice([1, 1, 2, 7])
            if "scale" in n:
                n["scale"] = min(n["scale"], 1)
        return s, dict(kind=kind, path=list(p), node={k: v for k, v in n.items() if k in ("type", "size", "precision", "scale")})
    raise ValueError(kind)


# ------------------------------------------------------------------ cosmetic rewrites (C13)
COSMETIC = ["doc", "aliases", "default", "order", "custom", "logicalType", "attr-order", "name-spelling",
            "namespace-explicit", "ref-spelling"]


def cosmetic(rng, schema, g, kinds=None):
    """returns (rewritten schema, list of edits applied).  Each edit is confined to documentation, aliases, defaults,
    ordering hints, custom or logical-type attributes, attribute order, or the spelling of a name."""
    s = copy.deepcopy(schema)
    edits = []
    nodes = [(p, n, ns) for p, n, ns, top in walk(s) if isinstance(n, dict)]
    strs = [(p, n, ns) for p, n, ns, top in walk(s) if isinstance(n, str) and n not in PRIMS]
    fs = fields_of(s)
    nedits = rng.choice([1, 1, 2, 3])
    tries = 0
    while len(edits) < nedits and tries < 20:
        tries += 1
        k = rng.choice(kinds or COSMETIC)
        if k == "doc":
            tgt = [n for _, n, _ in nodes] + [f for _, f, _ in fs]
            if not tgt: continue
            n = rng.choice(tgt)
            if "doc" in n and rng.random() < 0.5:
                del n["doc"]
            else:
                n["doc"] = g.text()
        elif k == "aliases":
            tgt = [n for _, n, _ in nodes if n.get("type") in ("record", "enum", "fixed")] + [f for _, f, _ in fs]
            if not tgt: continue
            n = rng.choice(tgt)
            if "aliases" in n and rng.random() < 0.5:
                del n["aliases"]
            else:
                n["aliases"] = [g.ident() for _ in range(rng.randrange(0, 3))]
        elif k == "default":
            if not fs: continue
            p, f, sp = rng.choice(fs)
            if "default" in f and rng.random() < 0.5:
                del f["default"]
            else:
                try:
                    ok, dv = g.default_for(sp, f["type"], 0)
                except KeyError:
                    continue
                if not ok: continue
                f["default"] = dv
        elif k == "order":
            if not fs: continue
            p, f, sp = rng.choice(fs)
            if "order" in f and rng.random() < 0.4:
                del f["order"]
            else:
                f["order"] = rng.choice(["ascending", "descending", "ignore"])
        elif k == "custom":
            tgt = [n for _, n, _ in nodes] + [f for _, f, _ in fs]
            if not tgt: continue
            n = rng.choice(tgt)
            cust = [a for a in n if a not in RESERVED]
            if cust and rng.random() < 0.5:
                a = rng.choice(cust)
                if rng.random() < 0.5: del n[a]
                else: n[a] = g.json_value()
            else:
                a = "c" + g.ident()
                n[a] = g.json_value()
        elif k == "logicalType":
            tgt = [n for _, n, _ in nodes if n.get("type") in PRIMS or n.get("type") == "fixed"]
            if not tgt: continue
            n = rng.choice(tgt)
            if "logicalType" in n and rng.random() < 0.5:
                for a in ("logicalType", "precision", "scale"):
                    n.pop(a, None)
            else:
                for a in ("precision", "scale"):
                    n.pop(a, None)
                n["logicalType"] = rng.choice(["date", "uuid", "timestamp-millis", "whatever", "time-micros"])
        elif k == "attr-order":
            tgt = [(p, n) for p, n, _ in nodes if len(n) > 1]
            if rng.random() < 0.4 and fs:
                p, f, sp = rng.choice(fs)
                new = g.shuffle_keys(f)
                f.clear(); f.update(new)
            elif tgt:
                p, n = rng.choice(tgt)
                new = g.shuffle_keys(n)
                n.clear(); n.update(new)
            else:
                continue
        elif k == "name-spelling":
            tgt = [(n, ns) for _, n, ns in nodes if n.get("type") in ("record", "enum", "fixed")]
            if not tgt: continue
            n, ns = rng.choice(tgt)
            sp, full = spec_fullname(ns, n)
            if "." in n["name"]:
                # dotted -> namespace + name
                short = full.rsplit(".", 1)[1]
                n.pop("namespace", None)
                n["name"] = short
                n["namespace"] = sp
            elif sp:
                n["name"] = full
                if rng.random() < 0.5:
                    n.pop("namespace", None)
            else:
                continue
        elif k == "namespace-explicit":
            tgt = [(n, ns) for _, n, ns in nodes if n.get("type") in ("record", "enum", "fixed") and "." not in n["name"]]
            if not tgt: continue
            n, ns = rng.choice(tgt)
            if "namespace" in n:
                if (n["namespace"] or "") == ns:
                    del n["namespace"]          # inherited instead of spelled out
                elif not n["namespace"]:
                    n["namespace"] = "" if n["namespace"] is None else None
                else:
                    continue
            else:
                n["namespace"] = ns             # spelled out instead of inherited
        elif k == "ref-spelling":
            if not strs: continue
            p, ref, ns = rng.choice(strs)
            if p == (): continue
            if "." in ref:
                sp, short = ref.rsplit(".", 1)
                if sp != ns or short in PRIMS: continue
                set_at(s, p, short)
            elif ns:
                set_at(s, p, ns + "." + ref)
            else:
                continue
            strs = [(p, n, ns) for p, n, ns, top in walk(s) if isinstance(n, str) and n not in PRIMS]
        edits.append(k)
    return s, edits
