"""Shared machinery for the binary-codec properties (C01, C02, C03, C06-schemaless, C09, C10):
case generation, implementation runners, model evaluation, the properties' own predicates."""
import io, json, math, struct, random
from . import core, gen, gallina as G

IMPORTS = ("From Coq Require Import String.\n"
           "From FA Require Import model.Base model.Varint model.Float model.Value model.Schema model.Codec model.Validate model.Write model.Read model.Harness.\n"
           "Open Scope Z_scope.\n")
EVAL_ENV = {"nan": float("nan"), "inf": float("inf"), "bytearray": bytearray}


def exc_name(e):
    return type(e).__name__


def impl_write(schema, datum, **wopts):
    import fastavro
    fo = io.BytesIO()
    try:
        core.with_timeout(lambda: fastavro.schemaless_writer(fo, schema, datum, **wopts), 20)
        return ("ok", fo.getvalue())
    except core.Timeout:
        return ("timeout", None)
    except RecursionError:
        return ("raised", "RecursionError")
    except Exception as e:
        return ("raised", exc_name(e))


def impl_read(schema, data, reader_schema=None, **ropts):
    import fastavro
    fo = io.BytesIO(data)
    try:
        v = core.with_timeout(lambda: fastavro.schemaless_reader(fo, schema, reader_schema, **ropts), 20)
        return ("ok", v, fo.tell())
    except core.Timeout:
        return ("timeout", None, None)
    except Exception as e:
        return ("raised", exc_name(e), None)


def impl_validate(datum, schema, **opts):
    import fastavro
    try:
        return ("ok", core.with_timeout(lambda: fastavro.validate(datum, schema, **opts), 20))
    except core.Timeout:
        return ("timeout", None)
    except Exception as e:
        return ("raised", exc_name(e))


# ---------------------------------------------------------------- cases
class Case:
    __slots__ = ("raw", "parsed", "named", "datum", "suffix", "wopts", "ropts", "tag", "use_raw")

    def to_json(self):
        return dict(schema=self.raw, datum_repr=repr(self.datum), suffix=self.suffix.hex(), wopts=self.wopts,
                    ropts=self.ropts, tag=self.tag, use_raw=self.use_raw)

    @staticmethod
    def from_json(d):
        import fastavro
        c = Case()
        c.raw = d["schema"]
        c.named = {}
        c.parsed = fastavro.parse_schema(c.raw, c.named)
        c.datum = eval(d["datum_repr"], dict(EVAL_ENV))
        c.suffix = bytes.fromhex(d["suffix"])
        c.wopts, c.ropts, c.tag, c.use_raw = d["wopts"], d["ropts"], d.get("tag", "replay"), d.get("use_raw", False)
        return c

    def schema_arg(self):
        return self.raw if self.use_raw else self.parsed


def strip_markers(named):
    return named


def make_schema(rng, max_depth=4):
    """(raw, parsed, named) or None when fastavro rejects the raw schema (counted by the caller)."""
    import fastavro
    g = gen.SchemaGen(rng, max_depth=max_depth)
    raw = g.schema(top=True)
    named = {}
    raw = json.loads(json.dumps(raw))
    parsed = fastavro.parse_schema(raw, named)
    return raw, parsed, named


FIXED_SCHEMAS = [
    "null", "boolean", "int", "long", "float", "double", "bytes", "string",
    {"type": "array", "items": "long"}, {"type": "map", "values": "string"},
    ["null", "int", "string"], ["float", "double"], ["double", "float", "long"],
    {"type": "record", "name": "Node", "fields": [{"name": "v", "type": "long"}, {"name": "next", "type": ["null", "Node"]}]},
    {"type": "record", "name": "T", "namespace": "ns", "fields": [{"name": "kids", "type": {"type": "array", "items": "T"}}]},
    {"type": "record", "name": "Empty", "fields": []},
    {"type": "array", "items": {"type": "record", "name": "Empty2", "fields": []}},
    {"type": "array", "items": "null"},
    {"type": "fixed", "name": "F0", "size": 0}, {"type": "enum", "name": "E", "symbols": ["A", "B", "C"]},
    {"type": "array", "items": {"type": "map", "values": ["null", {"type": "array", "items": ["int", "string"]}]}},
    {"type": "record", "name": "D", "fields": [{"name": "a", "type": "int", "default": 7}, {"name": "b", "type": "float", "default": 1},
                                                {"name": "c", "type": ["null", "string"], "default": None},
                                                {"name": "d", "type": {"type": "array", "items": "int"}, "default": []},
                                                {"name": "e", "type": {"type": "map", "values": "int"}, "default": {}}]},
    {"type": "record", "name": "U", "fields": [{"name": "u", "type": [
        {"type": "record", "name": "A", "fields": [{"name": "x", "type": "int"}, {"name": "y", "type": ["null", "int"], "default": None}]},
        {"type": "record", "name": "B", "fields": [{"name": "x", "type": "int"}, {"name": "z", "type": ["null", "int"], "default": None}]},
        {"type": "map", "values": "int"}]}]},
]


# minimised shapes of past findings and of seeded defects: run first in every codec check
U70 = [{"type": "fixed", "name": "F%d" % i, "size": 1} for i in range(70)]
CORPUS_CASES = [
    ({"type": "record", "name": "N1", "fields": [{"name": "a", "type": ["int", "null"], "default": 10}, {"name": "b", "type": ["null", "string"], "default": None}]}, {"a": None, "b": "x"}),
    ({"type": "record", "name": "N1", "fields": [{"name": "a", "type": ["int", "null"], "default": 10}]}, {}),
    ("string", "\ufeffabc"), ("string", "\ufeff"), ({"type": "map", "values": "int"}, {"\ufeffk": 1, "k": 2}), ({"type": "array", "items": "string"}, ["\ufeff\ufeffx", "\x00", "\u2028"]),
    ("string", "\u00e9" * 40), ("string", "\U0001F600" * 20), ("string", "\u20ac" * 63), ({"type": "map", "values": "int"}, {"\u00e9" * 33: 1}),
    (U70, b"\x07"), (U70 + ["null"], None), ({"type": "array", "items": U70[:66] + ["long"]}, [5, b"\x01", -1]),
    ("double", -0.0), ("float", -0.0), ({"type": "array", "items": "float"}, [-0.0, 0.0, 1e-46, -1e-46]),
    ({"type": "record", "name": "Node", "fields": [{"name": "v", "type": "long"}, {"name": "next", "type": ["null", "Node"]}]},
     {"v": 1, "next": {"v": 2, "next": {"next": None, "v": 3, "-type": "Node"}}}),
    ([{"type": "array", "items": ["long", {"type": "enum", "name": "ns.E3", "symbols": ["A", "B"]}]}, "null"], [("ns.E3", "A"), 4]),
    ({"type": "record", "name": "R9", "fields": [{"name": "a", "type": {"type": "null"}}, {"name": "b", "type": "int"}]}, {"b": 1}),
    ([{"type": "record", "name": "A", "fields": [{"name": "x", "type": "int"}, {"name": "y", "type": ["null", "int"], "default": None}]},
      {"type": "map", "values": ["int", "string"]}], {"x": 1, "-type": "A"}),
    ([{"type": "record", "name": "A1", "fields": [{"name": "x", "type": {"type": "array", "items": "int"}}]}, {"type": "map", "values": ["int", "string"]}], {"x": [1, 2, 3]}),
    ([{"type": "int", "logicalType": "zzz"}, "string"], "hello"),
    (["int", "long"], 2147483648), (["int", "long"], -2147483649), (["int", "double"], 2147483648), (["null", "int", "float"], -2147483649),
    ({"type": "array", "items": ["int", "long"]}, [2147483647, 2147483648, -2147483648, -2147483649]),
    ({"type": "record", "name": "X", "fields": [{"name": "Y", "type": {"type": "record", "name": "a.Y", "fields": [
        {"name": "e", "type": {"type": "enum", "name": "X", "symbols": ["P", "Q"]}}, {"name": "r", "type": "X"}]}}]},
     {"Y": {"e": "Q", "r": "Q"}}),
] + [
    # records given BY NAME in a union, a datum that conforms to several of them: the branch sharing most fields wins
    ({"type": "record", "name": "geo.Holder", "fields": [
        {"name": "c", "type": {"type": "record", "name": "geo.Circle", "fields": [{"name": "x", "type": "int"}, {"name": "r", "type": "int"}]}},
        {"name": "g", "type": {"type": "record", "name": "geo.Ring", "fields": [{"name": "x", "type": "int"}, {"name": "r", "type": "int"},
                                                                               {"name": "inner", "type": ["null", "int"], "default": None}]}},
        {"name": "u", "type": ["null", "geo.Circle", "geo.Ring"]}, {"name": "l", "type": {"type": "array", "items": ["Ring", "Circle"]}}]},
     {"c": {"x": 1, "r": 2}, "g": {"x": 1, "r": 2, "inner": 3}, "u": {"x": 5, "r": 6, "inner": 7}, "l": [{"x": 5, "r": 6, "inner": 7}, {"x": 1, "r": 1}]}),
] + [
    # branches whose Python types overlap: the FIRST conforming non-record branch is taken, and only a conforming one
    ([{"type": "array", "items": "string"}, "string"], "ab"), (["null", {"type": "array", "items": ["string", "int"]}, "string"], "xy"),
    ([{"type": "array", "items": {"type": "enum", "name": "OneLetter", "symbols": ["a", "b"]}}, "string"], "ab"),
    ([{"type": "array", "items": "int"}, "bytes"], b"ab"), ([{"type": "map", "values": "string"}, "string"], "k"),
    ([{"type": "fixed", "name": "Fx2", "size": 2}, {"type": "fixed", "name": "Fx3", "size": 3}, "bytes"], b"abc"),
    ([{"type": "fixed", "name": "Fx2", "size": 2}, {"type": "fixed", "name": "Fx3", "size": 3}, "bytes"], b"abcd"),
    ([{"type": "fixed", "name": "Fx2", "size": 2}, "bytes"], b"a"), ([{"type": "enum", "name": "En1", "symbols": ["x", "y"]}, "string"], "z"),
    # the same enum NAME with another symbol order in consecutive writes (anything remembered per name across calls shows here)
    ({"type": "enum", "name": "Ord", "symbols": ["A", "B", "C"]}, "C"), ({"type": "enum", "name": "Ord", "symbols": ["C", "B", "A"]}, "C"),
    ({"type": "enum", "name": "Ord", "symbols": ["B", "C", "A"]}, "A"), ({"type": "fixed", "name": "Ord", "size": 2}, b"ab"), ({"type": "fixed", "name": "Ord", "size": 3}, b"abc"),
    (["long", "boolean"], True), (["int", "boolean"], False), (["null", "long", "boolean"], True), (["double", "boolean"], True), (["float", "boolean"], False),
    ({"type": "array", "items": ["long", "boolean"]}, [True, 1, False, 0]),
    ({"type": "record", "name": "Al", "fields": [{"name": "a", "type": "int", "default": 1, "aliases": ["old_a"]}, {"name": "b", "type": "string", "default": "d", "aliases": ["a2", "bb"]}]},
     {"old_a": 5, "bb": "from-alias"}),
    ({"type": "record", "name": "Al2", "fields": [{"name": "a", "type": ["null", "int"], "default": None, "aliases": ["old_a"]}]}, {"old_a": 7}),
    (["float", {"type": "double", "logicalType": "zzz"}], 0.1), (["float", {"type": "double"}], 3), (["int", {"type": "long"}], 1 << 40),
] + [
    # hints name branches by FULL name: a namespaced type listed before a null-namespace type of the same short name
    ([{"type": "record", "name": "a.Event", "fields": [{"name": "v", "type": "int"}]}, {"type": "record", "name": "Event", "fields": [{"name": "v", "type": "int"}]}], d)
    for d in [("Event", {"v": 3}), ("a.Event", {"v": 3}), {"-type": "Event", "v": 4}, {"-type": "a.Event", "v": 4}, {"v": 5}]
] + [
    ([{"type": "enum", "name": "a.Kind", "symbols": ["A", "B"]}, {"type": "enum", "name": "Kind", "symbols": ["B", "A"]},
      {"type": "fixed", "name": "b.Kind", "size": 1}], d) for d in [("Kind", "A"), ("a.Kind", "A"), ("b.Kind", b"A"), "B"]
]


def tail_cases():
    """(raw schema, datum): encodings that END with each kind of leaf / terminator, alone, as the last field of a record (also
    followed by zero-byte values), under a union, and as the last item of an array / map -- so that "every proper prefix raises"
    is exercised with each decoder leaf facing end-of-input at its first byte, deterministically."""
    leaves = [("null", None), ("boolean", True), ("boolean", False), ("int", 0), ("int", -1), ("long", 1 << 40), ("float", 1.5), ("double", -2.25),
              ("bytes", b""), ("bytes", b"ab"), ("string", ""), ("string", "\u00e9"), ({"type": "fixed", "name": "TF", "size": 2}, b"xy"),
              ({"type": "fixed", "name": "TF0", "size": 0}, b""), ({"type": "enum", "name": "TE", "symbols": ["A", "B"]}, "B"),
              ({"type": "array", "items": "boolean"}, [True, False]), ({"type": "array", "items": "long"}, []),
              ({"type": "map", "values": "boolean"}, {"k": True}), ({"type": "map", "values": "null"}, {"k": None})]
    out = []
    for t, v in leaves:
        out.append((t, v))
        out.append(({"type": "record", "name": "TailR", "fields": [{"name": "a", "type": "long"}, {"name": "b", "type": t}]}, {"a": 7, "b": v}))
        out.append(({"type": "record", "name": "TailN", "fields": [{"name": "a", "type": "long"}, {"name": "b", "type": t}, {"name": "z", "type": "null"},
                                                                  {"name": "y", "type": {"type": "fixed", "name": "Z0", "size": 0}}]}, {"a": 7, "b": v, "z": None, "y": b""}))
        if not isinstance(t, dict) or t.get("type") not in ("array", "map"):
            out.append((["null", t] if t != "null" else ["null", "long"], v if t != "null" else None))
            out.append(({"type": "array", "items": t}, [v, v]))
            out.append(({"type": "map", "values": t}, {"k1": v}))
    return out


def corpus_cases():
    import fastavro
    out = []
    for raw, datum in CORPUS_CASES:
        for use_raw in (False, True):
            c = Case()
            c.raw = json.loads(json.dumps(raw))
            c.named = {}
            c.parsed = fastavro.parse_schema(c.raw, c.named)
            c.datum, c.suffix, c.wopts, c.ropts, c.tag, c.use_raw = datum, b"\x01", {}, {}, "corpus", use_raw
            out.append(c)
    return out


def gen_cases(ctx, n, hints=True, big=False, ropts_variants=False, wopts_variants=False):
    import fastavro
    rng = ctx.rng
    cases, rejected, toodeep = corpus_cases() if hints else [], 0, 0
    pool = []
    for fs in FIXED_SCHEMAS:
        named = {}
        pool.append((fs, fastavro.parse_schema(json.loads(json.dumps(fs)), named), named))
    while len(cases) < n:
        if pool and rng.random() < 0.25:
            raw, parsed, named = rng.choice(pool)
        else:
            try:
                raw, parsed, named = make_schema(rng)
            except Exception:
                rejected += 1
                continue
        for _ in range(rng.choice([1, 2, 3])):
            c = Case()
            c.raw, c.parsed, c.named = raw, parsed, named
            c.wopts = {}
            if wopts_variants and rng.random() < 0.3:
                c.wopts = {"disable_tuple_notation": True}
            try:
                c.datum = gen.DataGen(rng, named, hints=hints and not c.wopts.get("disable_tuple_notation"), big=big).datum(parsed)
            except (gen.TooDeep, RecursionError):
                toodeep += 1
                continue
            c.suffix = bytes(rng.randrange(256) for _ in range(rng.choice([0, 0, 1, 3, 9])))
            c.ropts = {}
            if ropts_variants:
                r = rng.random()
                if r < 0.5:
                    c.ropts = {rng.choice(["return_record_name", "return_named_type"]): True}
                    if rng.random() < 0.4:
                        c.ropts[rng.choice(["return_record_name_override", "return_named_type_override"])] = True
            c.tag = "gen"
            c.use_raw = rng.random() < 0.3
            cases.append(c)
    ctx.notes["schemas_rejected_by_parse"] = rejected
    ctx.notes["data_generation_too_deep"] = toodeep
    return cases


def expr_wr(c):
    return "run_wr %s %s %s %s %s %s" % (G.wopts(**c.wopts), G.ropts(**c.ropts), G.env_to_coq(c.named),
                                         G.schema_to_coq(c.parsed), G.py_to_coq(c.datum), G.hx(c.suffix))


def run_model(ctx, exprs, tag):
    out = core.coq_eval(exprs, IMPORTS, ctx.workdir, tag=tag, shard=150)
    return [G.canon_model_text(x) for x in out]


def impl_wr_text(c):
    """Same text as run_wr, from the implementation."""
    w = impl_write(c.schema_arg(), c.datum, **c.wopts)
    if w[0] != "ok":
        return "E" if w[0] == "raised" else "TIMEOUT", w
    data = w[1]
    r = impl_read(c.schema_arg(), data + c.suffix, **c.ropts)
    if r[0] == "ok":
        rt = "R:" + G.show_py(r[1]) + "|" + str(len(data) + len(c.suffix) - r[2])
    else:
        rt = "E" if r[0] == "raised" else "TIMEOUT"
    return "W:" + data.hex() + ";" + rt, (w, r)


# ---------------------------------------------------------------- independent predicates (Python)
def f32round(x):
    return struct.unpack("<f", struct.pack("<f", x))[0]


def same_float(a, b):
    return isinstance(a, float) and isinstance(b, float) and ((a != a and b != b) or G.fbits(a) == G.fbits(b))


def resolve(s, named):
    while isinstance(s, str) and s not in gen.PRIMS:
        s = named[s]
    return s


def conforms(v, s, named, tuple_notation=True):
    """the documented Python mapping (independent of fastavro's validator and of the model)"""
    s = resolve(s, named)
    if isinstance(s, list):
        if isinstance(v, tuple) and tuple_notation:
            if len(v) != 2:
                return False
            return any(branch_label(b) == v[0] and conforms(v[1], b, named, tuple_notation) for b in s)
        return any(conforms(v, b, named, tuple_notation) for b in s)
    t = s if isinstance(s, str) else s["type"]
    if t == "null":
        return v is None
    if t == "boolean":
        return isinstance(v, bool)
    if t in ("int", "long"):
        lo, hi = (-(1 << 31), (1 << 31) - 1) if t == "int" else (-(1 << 63), (1 << 63) - 1)
        return isinstance(v, int) and not isinstance(v, bool) and lo <= v <= hi
    if t in ("float", "double"):
        return isinstance(v, (int, float)) and not isinstance(v, bool)
    if t == "bytes":
        return isinstance(v, (bytes, bytearray))
    if t == "string":
        return isinstance(v, str)
    if t == "fixed":
        return isinstance(v, bytes) and len(v) == s["size"]
    if t == "enum":
        return isinstance(v, str) and v in s["symbols"]
    if t == "array":      # "non-string sequences": list, tuple, and bytes/bytearray (sequences of ints)
        return isinstance(v, (list, tuple, bytes, bytearray)) and all(conforms(x, s["items"], named, tuple_notation) for x in v)
    if t == "map":
        return isinstance(v, dict) and all(isinstance(k, str) for k in v) and \
            all(conforms(x, s["values"], named, tuple_notation) for x in v.values())
    if t in ("record", "error"):
        if not isinstance(v, dict):
            return False
        if "-type" in v and v["-type"] != s["name"]:
            return False
        for f in s["fields"]:
            if f["name"] in v:
                if not conforms(v[f["name"]], f["type"], named, tuple_notation):
                    return False
            elif "default" in f:
                pass
            elif not conforms(None, f["type"], named, tuple_notation):
                return False
        return True
    return False


def branch_label(b):
    if isinstance(b, str):
        return b
    if isinstance(b, dict) and b["type"] in ("record", "enum", "fixed", "error"):
        return b["name"]
    return b["type"] if isinstance(b, dict) else None


def norm_equiv(v, out, s, named, tuple_notation=True):
    """`out` is `v` after the documented normalisation under SOME branch choice that v conforms to."""
    s = resolve(s, named)
    if isinstance(s, list):
        cands = s
        if isinstance(v, tuple) and tuple_notation:
            if len(v) != 2:
                return False
            cands = [b for b in s if branch_label(b) == v[0]]
            v = v[1]
        return any(conforms(v, b, named, tuple_notation) and norm_equiv(v, out, b, named, tuple_notation) for b in cands)
    t = s if isinstance(s, str) else s["type"]
    if t == "null":
        return v is None and out is None
    if t == "boolean":
        return isinstance(out, bool) and out == v
    if t in ("int", "long"):
        return isinstance(out, int) and not isinstance(out, bool) and out == v
    if t == "float":
        try:
            return same_float(out, f32round(float(v)))
        except (OverflowError, struct.error):
            return False
    if t == "double":
        return same_float(out, float(v))
    if t == "bytes":
        return isinstance(out, bytes) and isinstance(v, (bytes, bytearray)) and out == bytes(v)
    if t == "string":
        return isinstance(out, str) and out == v
    if t == "fixed":
        return isinstance(out, bytes) and out == v
    if t == "enum":
        return out == v
    if t == "array":
        return isinstance(out, list) and isinstance(v, (list, tuple, bytes, bytearray)) and len(out) == len(v) and all(
            norm_equiv(a, b, s["items"], named, tuple_notation) for a, b in zip(v, out))
    if t == "map":
        return isinstance(out, dict) and list(out.keys()) == list(v.keys()) and all(
            norm_equiv(v[k], out[k], s["values"], named, tuple_notation) for k in v)
    if t in ("record", "error"):
        if not isinstance(out, dict) or list(out.keys()) != [f["name"] for f in s["fields"]]:
            return False
        for f in s["fields"]:
            if f["name"] in v:
                x = v[f["name"]]
            elif "default" in f:
                x = f["default"]
            else:
                x = None
            if not norm_equiv(x, out[f["name"]], f["type"], named, tuple_notation):
                return False
        return True
    return False


def has_depth(v):
    return isinstance(v, (list, tuple, dict)) and len(v) > 0
