"""Shared machinery: Coq build / obligation checking / in-Coq evaluation of the
model, evidence and replay writers, known-findings matching."""
import fcntl, hashlib, json, os, random, re, shutil, signal, subprocess, sys, time
from concurrent.futures import ThreadPoolExecutor

VERIF = os.path.dirname(os.path.dirname(os.path.abspath(__file__)))
COQ = os.path.join(VERIF, "coq")
REPO = os.environ.get("VERIF_REPO", "/repo")
WORK = os.path.join(VERIF, "work")
COQFLAGS = ["-w", "-notation-overridden,-deprecated-hint-without-locality,-deprecated-instance-without-locality"]
# standard-library axioms (the axiomatisation of the real numbers + excluded middle), used ONLY by the theorems that relate the
# float leaves to the real-number specification of IEEE-754 through Flocq (proofs/FloatProofs.v); every other theorem is closed
ALLOWED_AXIOMS = {"ClassicalDedekindReals.sig_forall_dec", "ClassicalDedekindReals.sig_not_dec",
                  "FunctionalExtensionality.functional_extensionality_dep", "Classical_Prop.classic"}

TRUSTED_BASE_COMMON = [
    "Coq 8.16.1 kernel (coqc, full .vo build); vm_compute used for finite computations; no native_compute",
    "axioms: none declared by this development; every theorem in props/ prints 'Closed under the global context' except the float-leaf "
    "theorems stated against the real-number specification of IEEE-754 (C01_float_*, C02_float_*, C02_int_to_double_is_rne and what is "
    "derived from proofs/FloatProofs.v), which depend, through Flocq and Coq's Reals, on the standard library's "
    "ClassicalDedekindReals.sig_forall_dec, ClassicalDedekindReals.sig_not_dec, FunctionalExtensionality.functional_extensionality_dep "
    "and Classical_Prop.classic (listed per theorem under obligations)",
    "hand-written Gallina model (coq/model); tie to /repo = correspondence check (model evaluated inside Coq by vm_compute vs implementation on the same inputs) + regenerated Srcfacts.v",
    "harness: Python generators, syntactic abstraction Python<->Gallina terms (harness/gallina.py), comparators",
    "Cython mirrors (*.pyx) are not verified; the pure-Python modules are what runs here",
]


class Timeout(Exception):
    pass


def _alarm(signum, frame):
    raise Timeout()


def with_timeout(fn, seconds=10):
    """Run fn() with a wall-clock alarm (implementation calls that might hang on a mutant)."""
    old = signal.signal(signal.SIGALRM, _alarm)
    signal.setitimer(signal.ITIMER_REAL, seconds)
    try:
        return fn()
    finally:
        signal.setitimer(signal.ITIMER_REAL, 0)
        signal.signal(signal.SIGALRM, old)


def _lift_limits():
    # children (coqc, coqchk, make) are not bound by the address-space cap of the harness process itself
    import resource
    soft, hard = resource.getrlimit(resource.RLIMIT_AS)
    resource.setrlimit(resource.RLIMIT_AS, (hard, hard))


def cap_own_memory(gib=10):
    """A mutated implementation may allocate without bound (a misread block count): cap the harness process so that this
    ends as a MemoryError inside the call under test instead of taking the machine down."""
    import resource
    soft, hard = resource.getrlimit(resource.RLIMIT_AS)
    cap = gib << 30
    if hard == resource.RLIM_INFINITY or cap < hard:
        resource.setrlimit(resource.RLIMIT_AS, (cap, hard))


def sh(cmd, cwd=None, timeout=900, env=None):
    p = subprocess.run(cmd, cwd=cwd, stdout=subprocess.PIPE, stderr=subprocess.STDOUT,
                       timeout=timeout, env=env, preexec_fn=_lift_limits)
    return p.returncode, p.stdout.decode("utf-8", "replace")


class Lock:
    def __init__(self, path):
        self.path = path

    def __enter__(self):
        self.f = open(self.path, "w")
        fcntl.flock(self.f, fcntl.LOCK_EX)
        return self

    def __exit__(self, *a):
        fcntl.flock(self.f, fcntl.LOCK_UN)
        self.f.close()


def coq_sources():
    out = []
    for sub in ("model", "proofs", "props"):
        d = os.path.join(COQ, sub)
        for fn in sorted(os.listdir(d)):
            if fn.endswith(".v"):
                out.append(os.path.join(sub, fn))
    return out


def coq_targets_for(mod, prop_id):
    """props/<id>.vo plus every model/proofs file named in the harness module and the harness modules it imports."""
    import types
    seen, todo, names = set(), [mod], set()
    while todo:
        m = todo.pop()
        if m.__name__ in seen:
            continue
        seen.add(m.__name__)
        try:
            src = open(m.__file__).read()
        except Exception:
            continue
        names.update(re.findall(r"\b(model|proofs)\.([A-Z][A-Za-z0-9_]*)", src))
        for v in vars(m).values():
            if isinstance(v, types.ModuleType) and v.__name__.startswith("harness.") and v.__name__ != "harness.core":
                todo.append(v)
    out = [os.path.join("props", prop_id + ".vo")]
    for d, n in sorted(names):
        if os.path.exists(os.path.join(COQ, d, n + ".v")):
            out.append(os.path.join(d, n + ".vo"))
    return out


def ensure_built(targets=None):
    """Full .vo build (incremental) of what this check needs: the given targets and everything they depend on
    (all targets when none are given).  Returns (ok, log)."""
    with Lock(os.path.join(COQ, ".lock")):
        srcs = coq_sources()
        proj = open(os.path.join(COQ, "_CoqProject")).read()
        listed = [l.strip() for l in proj.splitlines() if l.strip().endswith(".v")]
        mk = os.path.join(COQ, "Makefile")
        if listed != srcs or not os.path.exists(mk):
            head = [l for l in proj.splitlines() if not l.strip().endswith(".v")]
            with open(os.path.join(COQ, "_CoqProject"), "w") as f:
                f.write("\n".join(head + srcs) + "\n")
            rc, log = sh(["coq_makefile", "-f", "_CoqProject", "-o", "Makefile"], cwd=COQ)
            if rc != 0:
                return False, log
        rc, log = sh(["timeout", "2400", "make", "-j16", "-k", "COQC=timeout 1200 coqc"] + list(targets or []), cwd=COQ, timeout=2500)
        return rc == 0, log


FORBIDDEN = re.compile(r"\b(Admitted|admit|Axiom|Axioms|Parameter|Parameters|Conjecture|Conjectures|Admit Obligations|bypass_check|Unset Guard Checking|Unset Positivity Checking|Unset Universe Checking|type-in-type|impredicative-set|native_compute)\b")


def strip_comments(text):
    out, depth, i = [], 0, 0
    while i < len(text):
        if text.startswith("(*", i):
            depth += 1; i += 2
        elif text.startswith("*)", i) and depth:
            depth -= 1; i += 2
        else:
            if not depth:
                out.append(text[i])
            i += 1
    return "".join(out)


def grep_forbidden():
    """No Admitted/Axiom/... anywhere; Variable/Hypothesis only inside Sections."""
    bad = []
    for rel in coq_sources() + [os.path.join("srcfacts", f) for f in sorted(os.listdir(os.path.join(COQ, "srcfacts"))) if f.endswith(".v")]:
        text = strip_comments(open(os.path.join(COQ, rel)).read())
        for m in FORBIDDEN.finditer(text):
            bad.append(f"{rel}: {m.group(0)}")
        depth = 0
        for sentence in re.split(r"\.\s", text):
            s = sentence.strip()
            if re.match(r"Section\b", s):
                depth += 1
            elif re.match(r"End\b", s) and depth:
                depth -= 1
            elif re.match(r"(Variable|Variables|Hypothesis|Hypotheses|Context)\b", s) and depth == 0:
                bad.append(f"{rel}: {s.split()[0]} outside a Section")
    return bad


def check_props(prop_id, workdir):
    """Re-compile props/<id>.v and collect (theorem, assumptions) pairs."""
    src = os.path.join(COQ, "props", f"{prop_id}.v")
    text = open(src).read()
    names = re.findall(r"^Print Assumptions (\S+)\.", text, re.M)
    theorems = re.findall(r"^(?:Theorem|Lemma|Corollary)\s+(\S+)", strip_comments(text), re.M)
    missing = [t for t in theorems if t not in names]
    tmp = os.path.join(workdir, f"{prop_id}_recheck.v")
    shutil.copy(src, tmp)
    rc, log = sh(["timeout", "600", "coqc"] + COQFLAGS + ["-Q", COQ, "FA", "-Q", workdir, "WK", tmp], cwd=workdir, timeout=700)
    obligations = []
    if rc != 0:
        return {"ok": False, "log": log[-3000:], "obligations": [(n, "NOT COMPILED") for n in names], "theorems": theorems}
    blocks = re.split(r"(?=Closed under the global context|Axioms:)", log)
    blocks = [b.strip() for b in blocks if b.strip().startswith(("Closed", "Axioms:"))]
    ok = len(blocks) == len(names) and not missing
    for n, b in zip(names, blocks):
        if b.startswith("Closed"):
            obligations.append((n, "closed"))
        else:
            axs = re.findall(r"^(\S+)\s*:", b[len("Axioms:"):], re.M)
            obligations.append((n, "axioms: " + ", ".join(axs)))
            if not set(axs) <= ALLOWED_AXIOMS:
                ok = False
    return {"ok": ok, "log": log[-2000:] if not ok else "", "obligations": obligations, "theorems": theorems,
            "unprinted": missing}


def coqchk(prop_id):
    """Independent re-check of props/<id>.vo and everything it depends on (thorough tier).
    Returns (ok, summary dict)."""
    rc, log = sh(["bash", "-c", 'ulimit -s unlimited 2>/dev/null; exec "$@"', "coqchk-big-stack",
                  "timeout", "1700", "coqchk", "-silent", "-o", "-Q", COQ, "FA", f"FA.props.{prop_id}"], cwd=COQ, timeout=1800)
    summ = {}
    for key, pat in [("axioms", r"\* Axioms:(.*?)\n\s*\n"), ("type_in_type", r"type-in-type:(.*?)\n\s*\n"),
                     ("unsafe_fixpoints", r"unsafe \(co\)fixpoints:(.*?)\n\s*\n"), ("positivity_assumed", r"positivity is assumed:(.*?)\n\s*\n")]:
        m = re.search(pat, log + "\n\n", re.S)
        summ[key] = re.sub(r"\s+", " ", m.group(1)).strip() if m else "?"
    ok = rc == 0 and all(v == "<none>" for k, v in summ.items() if k != "axioms") and \
        (summ["axioms"] == "<none>" or all(any(a == x or a.endswith("." + x) for x in ALLOWED_AXIOMS) for a in summ["axioms"].split()))
    summ["exit"] = rc
    return ok, summ


def coq_eval(exprs, imports, workdir, tag="cases", shard=250, scope="string_scope", timeout=600, max_bytes=250000):
    """Evaluate each Gallina expression (of type string) with vm_compute inside Coq.
    Returns list of result strings (None where evaluation failed)."""
    if not exprs:
        return []
    # shards are bounded both by case count and by source size (huge literals cost gigabytes inside Coq)
    files, cur, cur_bytes = [], [], 0
    groups = []
    for e in exprs:
        if cur and (len(cur) >= shard or cur_bytes + len(e) > max_bytes):
            groups.append(cur); cur, cur_bytes = [], 0
        cur.append(e); cur_bytes += len(e)
    if cur:
        groups.append(cur)
    for gi, g in enumerate(groups):
        fn = os.path.join(workdir, f"{tag}_{gi}.v")
        with open(fn, "w") as f:
            f.write(imports + "\n")
            f.write(f"Open Scope {scope}.\n")
            for e in g:
                f.write("Eval vm_compute in (" + e + ").\n")
        files.append((fn, len(g)))

    def run(item):
        fn, n = item
        rc, log = sh(["bash", "-c", 'ulimit -s unlimited 2>/dev/null || ulimit -s 1000000 2>/dev/null; exec "$@"', "coqc-big-stack",
                      "timeout", str(timeout), "coqc"] + COQFLAGS + ["-Q", COQ, "FA", "-Q", workdir, "WK", fn], cwd=workdir, timeout=timeout + 30)
        vals = re.findall(r'=\s*"([^"]*)"\s*:\s*string', log, re.S)
        vals = [re.sub(r"\s+", "", v) for v in vals]
        if rc != 0 or len(vals) != n:
            em = re.search(r"(File [^\n]*\n(?:Error|Warning)?[^\n]*\n?[^\n]*\n?[^\n]*)", log)
            return [None] * n, (f"rc={rc} got {len(vals)} of {n} values; " + (em.group(1) if em else "") + " ... " + log[-600:])
        return vals, ""

    out, errs = [], []
    with ThreadPoolExecutor(max_workers=int(os.environ.get("VERIF_COQ_JOBS", "8"))) as ex:
        for vals, err in ex.map(run, files):
            out.extend(vals)
            if err:
                errs.append(err)
    if errs:
        raise RuntimeError("coq evaluation of generated cases failed:\n" + errs[0])
    return out


# ---------------------------------------------------------------- findings
def load_known():
    p = os.path.join(VERIF, "known_findings.json")
    if not os.path.exists(p):
        return []
    return json.load(open(p))["findings"]


class Ctx:
    def __init__(self, prop_id, tier, seed):
        self.prop_id, self.tier, self.seed = prop_id, tier, seed
        self.rng = random.Random(seed)
        self.t0 = time.time()
        self.workdir = os.path.join(WORK, f"{prop_id}.{os.getpid()}")
        os.makedirs(self.workdir, exist_ok=True)
        self.evaluations = 0
        self.nontrivial = set()
        self.samples = []
        self.violations = []       # dicts: {kind, name, case, impl, model, signature, found_input}
        self.known_hits = []
        self.notes = {}
        self.corr = {}             # correspondence name -> count
        self.obl = None
        self.srcfacts = None
        self.partial = []
        self.assumptions = []
        self.exhaustive = False

    def quick(self):
        return self.tier == "quick"

    def count(self, corr, case_key=None, nontrivial=True):
        self.evaluations += 1
        self.corr[corr] = self.corr.get(corr, 0) + 1
        if nontrivial and case_key is not None:
            self.nontrivial.add(hashlib.sha1(repr(case_key).encode()).hexdigest()[:16])

    def sample(self, s, limit=6):
        if len(self.samples) < limit:
            self.samples.append(s)

    def violation(self, name, case, impl=None, model=None, signature=None, found_input=True, kind="counterexample", detail=None):
        self.violations.append(dict(kind=kind, name=name, case=case, impl=impl, model=model,
                                    signature=signature or name, found_input=found_input, detail=detail))

    def cleanup(self):
        shutil.rmtree(self.workdir, ignore_errors=True)


def jsonable(x):
    if isinstance(x, (bytes, bytearray)):
        return {"__bytes__": bytes(x).hex()}
    if isinstance(x, dict):
        return {str(k): jsonable(v) for k, v in x.items()}
    if isinstance(x, (list, tuple)):
        return [jsonable(v) for v in x]
    if isinstance(x, (int, str, bool)) or x is None:
        return x
    if isinstance(x, float):
        return repr(x)
    return repr(x)
