"""./check <id> [--tier quick|thorough] [--replay file]"""
import argparse, hashlib, importlib, json, os, sys, time, traceback
from . import core
from .core import Ctx, VERIF


def write_replay(ctx, v):
    os.makedirs(os.path.join(VERIF, "replays"), exist_ok=True)
    body = dict(property=ctx.prop_id, kind=v["kind"], name=v["name"], seed=ctx.seed, tier=ctx.tier,
                signature=v["signature"], case=core.jsonable(v["case"]), implementation=core.jsonable(v["impl"]),
                model=core.jsonable(v["model"]), detail=core.jsonable(v.get("detail")),
                found_failing_input=v["found_input"],
                replay_cmd=f"./check {ctx.prop_id} --replay <this file>")
    h = hashlib.sha1(json.dumps(body, sort_keys=True, default=str).encode()).hexdigest()[:12]
    path = os.path.join(VERIF, "replays", f"{ctx.prop_id}-{h}.json")
    with open(path, "w") as f:
        json.dump(body, f, indent=1, default=str)
    return path


def main():
    ap = argparse.ArgumentParser()
    ap.add_argument("prop")
    ap.add_argument("--tier", default=os.environ.get("VERIF_TIER", "quick"))
    ap.add_argument("--replay")
    a = ap.parse_args()
    tier = a.tier if a.tier in ("quick", "thorough") else "quick"
    seed = int(os.environ.get("VERIF_SEED", "0") or 0)
    pid = a.prop.upper()
    mod = importlib.import_module(f"harness.props.{pid.lower()}")
    ctx = Ctx(pid, tier, seed)
    exit_code = 0
    core.cap_own_memory()
    # watchdog: a check that does not finish (a changed implementation may loop where no per-call alarm is armed) is reported as
    # a violation with the stack of the stuck call, instead of hanging the caller
    import threading, faulthandler, io as _io
    limit = int(os.environ.get("VERIF_WATCHDOG_S", "1500" if tier == "quick" else "14400"))

    def _watchdog():
        import traceback as _tb, sys as _sys
        frames = _sys._current_frames()
        main_id = threading.main_thread().ident
        stack = "".join(_tb.format_stack(frames.get(main_id))) if main_id in frames else "?"
        v = dict(kind="broken-obligation", name="watchdog", case=None, impl=None, model=None, signature="broken:check-did-not-terminate",
                 found_input=False, detail="the check did not finish within %d s; stack of the main thread:\n%s" % (limit, stack[-4000:]))
        try:
            path = write_replay(ctx, v)
            print(f"VIOLATION property={pid} replay={path} no-failing-input-found", flush=True)
        finally:
            os._exit(1)
    _t = threading.Timer(limit, _watchdog)
    _t.daemon = True
    _t.start()
    try:
        if a.replay:
            rep = json.load(open(a.replay))
            ok = mod.replay(ctx, rep)
            print("REPLAY", "property holds on this case now" if ok else "still fails")
            sys.exit(0 if ok else 1)

        # 1. proofs: full incremental build, forbidden constructs, the property's theorems
        built, blog = core.ensure_built(core.coq_targets_for(mod, pid))
        forbidden = core.grep_forbidden()
        obl = core.check_props(pid, ctx.workdir)
        ctx.obl = obl
        broken = []
        if not obl["ok"]:
            broken.append(("theorem", f"props/{pid}.v does not check: " + (obl.get("log") or str(obl.get("unprinted")))))
        if forbidden:
            broken.append(("forbidden", "; ".join(forbidden)))
        if not built:
            ctx.notes["build_log_tail"] = blog[-1500:]
            broken.append(("build", "the Coq development needed by this check does not build: " + blog[-800:]))

        if tier == "thorough":
            ok_chk, summ = core.coqchk(pid)
            ctx.notes["coqchk"] = summ
            if not ok_chk:
                broken.append(("coqchk", "coqchk -o on props/%s.vo: %s" % (pid, summ)))

        # 2. source facts regenerated from /repo and compared with the constants the model was proved with
        from . import srcfacts
        sf = srcfacts.check(ctx, getattr(mod, "SRCFACTS", []))
        ctx.srcfacts = sf
        for g, (ok, msg) in sf.items():
            if not ok:
                broken.append(("srcfacts:" + g, msg))

        # 3. correspondence model <-> implementation (+ direct property predicates)
        try:
            mod.run(ctx)
        except Exception:
            tb = traceback.format_exc()
            broken.append(("harness", "correspondence run crashed: " + tb[-1500:]))

        # 4. classify
        known = [k for k in core.load_known() if k["property"] == pid and k["status"] == "known"]
        known_sigs = {k["signature"]: k for k in known}
        reported = set()
        new_violations = []
        for v in ctx.violations:
            k = known_sigs.get(v["signature"])
            if k is not None:
                if k["id"] not in reported:
                    reported.add(k["id"])
                    print(f"KNOWN-FINDING: property={pid} {k['id']} {k['what']}")
                continue
            new_violations.append(v)
        seen = set()
        for v in new_violations:
            if v["signature"] in seen:
                continue
            seen.add(v["signature"])
            path = write_replay(ctx, v)
            tail = "" if v["found_input"] else " no-failing-input-found"
            print(f"VIOLATION property={pid} replay={path}{tail}")
            exit_code = 1
        if broken and not any(v["found_input"] for v in new_violations):
            # an obligation / correspondence no longer checks, and no concrete failing input was found
            for name, msg in broken:
                v = dict(kind="broken-obligation", name=name, case=None, impl=None, model=None,
                         signature="broken:" + name, found_input=False, detail=msg)
                path = write_replay(ctx, v)
                print(f"VIOLATION property={pid} replay={path} no-failing-input-found")
                exit_code = 1
        elif broken:
            ctx.notes["broken_obligations"] = broken
            exit_code = 1

        # 5. evidence
        nobl = len(obl["obligations"]) + len(sf)
        ndis = sum(1 for _, s in obl["obligations"] if s == "closed" or s.startswith("axioms")) if obl["ok"] else 0
        ndis += sum(1 for g, (ok, _) in sf.items() if ok)
        ev = dict(
            property_id=pid, tier=tier, seed=seed, level="proof",
            coverage=dict(
                obligations=nobl, discharged=ndis,
                checker_cmd=f"cd /verif/coq && make (coqc 8.16.1, full .vo) ; coqc props/{pid}.v (Print Assumptions) ; coqc srcfacts/*.v against regenerated Srcfacts.v",
                trusted_base=core.TRUSTED_BASE_COMMON + getattr(mod, "TRUSTED", []),
                theorems=[dict(name=n, assumptions=s) for n, s in obl["obligations"]],
                srcfacts={g: ("ok" if ok else msg) for g, (ok, msg) in sf.items()},
                evaluations=ctx.evaluations,
                distinct_nontrivial=len(ctx.nontrivial),
                rule=getattr(mod, "RULE", ""),
                correspondences=ctx.corr,
                samples=ctx.samples,
                exhaustive=ctx.exhaustive,
                partial=getattr(mod, "PARTIAL", []) + ctx.partial,
                known_findings_reported=sorted(reported),
                notes=ctx.notes,
            ),
            assumptions=getattr(mod, "ASSUMPTIONS", []) + ctx.assumptions,
            wall_s=round(time.time() - ctx.t0, 2),
            violations=len(seen) + (len(broken) if exit_code and not seen else 0),
        )
        # runs against a scratch tree (VERIF_REPO, used by tools/seeded.py) must not overwrite the evidence of /repo
        evdir = os.path.join(VERIF, "evidence") if core.REPO == "/repo" else os.path.join(VERIF, "work", "evidence_scratch")
        os.makedirs(evdir, exist_ok=True)
        with open(os.path.join(evdir, f"{pid}.json"), "w") as f:
            json.dump(core.jsonable(ev) if False else ev, f, indent=1, default=str)
        print(f"{pid} {tier}: obligations {ndis}/{nobl}, correspondence cases {ctx.evaluations} "
              f"({len(ctx.nontrivial)} distinct non-trivial), violations {ev['violations']}, {ev['wall_s']} s")
    finally:
        ctx.cleanup()
    sys.exit(exit_code)


if __name__ == "__main__":
    main()
