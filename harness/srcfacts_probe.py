"""Runs in a fresh interpreter with PYTHONPATH=/repo: dump the source facts as JSON."""
import ast, importlib, json, os, pkgutil, sys, types

import fastavro
out = {}
root = os.path.dirname(fastavro.__file__)
out["root"] = root

# (i) constants as the interpreter sees them after import ------------------------------
from fastavro import const, _read_common, _schema_common
import fastavro._schema_py as S, fastavro._read_py as R, fastavro._write_py as W
import fastavro._validation_py as V, fastavro._logical_writers_py as LW, fastavro._logical_readers_py as LR
out["consts"] = {k: getattr(const, k) for k in
                 ["MCS_PER_SECOND", "MCS_PER_MINUTE", "MCS_PER_HOUR", "MLS_PER_SECOND", "MLS_PER_MINUTE",
                  "MLS_PER_HOUR", "DAYS_SHIFT", "INT_MIN_VALUE", "INT_MAX_VALUE", "LONG_MIN_VALUE", "LONG_MAX_VALUE"]}
out["named_types"] = sorted(const.NAMED_TYPES)
out["avro_types"] = sorted(const.AVRO_TYPES)
out["primitives"] = sorted(_schema_common.PRIMITIVES)
out["reserved_properties"] = sorted(_schema_common.RESERVED_PROPERTIES)
out["optional_field_properties"] = sorted(_schema_common.OPTIONAL_FIELD_PROPERTIES)
out["reserved_field_properties"] = sorted(_schema_common.RESERVED_FIELD_PROPERTIES)
out["magic"] = list(_read_common.MAGIC)
out["sync_size"] = _read_common.SYNC_SIZE
out["header_schema"] = json.dumps(_read_common.HEADER_SCHEMA, sort_keys=True)
out["rabin_name"] = _schema_common.RABIN_64
out["java_mapping"] = sorted(_schema_common.JAVA_FINGERPRINT_MAPPING.items())
out["fingerprint_algorithms"] = sorted(_schema_common.FINGERPRINT_ALGORITHMS)
out["symbol_regex"] = S.SYMBOL_REGEX.pattern
out["writers"] = sorted(W.WRITERS)
out["readers"] = sorted(R.READERS)
out["skips"] = sorted(R.SKIPS)
out["validators"] = sorted(V.VALIDATORS)
out["logical_writers"] = sorted(LW.LOGICAL_WRITERS)
out["logical_readers"] = sorted(LR.LOGICAL_READERS)
out["block_writers"] = sorted(W.BLOCK_WRITERS)
out["block_readers"] = sorted(R.BLOCK_READERS)

# rabin seed: literal inside the function body (fail closed on any other shape)
tree = ast.parse(open(os.path.join(root, "_schema_common.py")).read())
seed = None
for node in ast.walk(tree):
    if isinstance(node, ast.FunctionDef) and node.name == "rabin_fingerprint":
        for st in ast.walk(node):
            if isinstance(st, ast.Assign) and len(st.targets) == 1 and isinstance(st.targets[0], ast.Name) \
                    and st.targets[0].id == "empty_64":
                if not (isinstance(st.value, ast.Constant) and isinstance(st.value.value, int)) or seed is not None:
                    raise SystemExit("srcfacts: unrecognised shape of empty_64 in rabin_fingerprint")
                seed = st.value.value
if seed is None:
    raise SystemExit("srcfacts: empty_64 not found in rabin_fingerprint")
out["rabin_seed"] = seed

# (ii) inventory of shared mutable state, by introspection -------------------------------
IMMUTABLE = (int, float, complex, str, bytes, bool, type(None), tuple, frozenset, types.ModuleType,
             types.FunctionType, types.BuiltinFunctionType, type, range)
inv, defaults = [], []
mods = []
for m in pkgutil.walk_packages(fastavro.__path__, "fastavro."):
    if m.name in ("fastavro.__main__",):
        continue
    try:
        mods.append(importlib.import_module(m.name))
    except Exception as e:       # compiled mirrors are not importable here
        continue
seen_fn = set()
for mod in mods:
    if not getattr(mod, "__file__", "").endswith(".py"):
        continue
    for name, val in sorted(vars(mod).items()):
        if name.startswith("__"):
            continue
        origin = getattr(val, "__module__", None)
        if isinstance(val, IMMUTABLE):
            # functions / classes: look at mutable defaults once, where they are defined
            fns = []
            if isinstance(val, types.FunctionType) and val.__module__ == mod.__name__:
                fns = [(name, val)]
            elif isinstance(val, type) and val.__module__ == mod.__name__:
                fns = [(f"{name}.{k}", v) for k, v in vars(val).items() if isinstance(v, types.FunctionType)]
            for fname, fn in fns:
                if id(fn) in seen_fn:
                    continue
                seen_fn.add(id(fn))
                for d in (fn.__defaults__ or ()) + tuple((fn.__kwdefaults__ or {}).values()):
                    if not isinstance(d, IMMUTABLE):
                        defaults.append(f"{mod.__name__}.{fname}:{type(d).__name__}")
            continue
        if origin is not None and origin.startswith(("typing", "re", "abc")):
            continue
        tn = type(val).__name__
        if tn in ("_GenericAlias", "TypeVar", "_SpecialForm", "_UnionGenericAlias", "_SpecialGenericAlias", "Pattern", "ABCMeta"):
            continue
        # only objects defined/bound in fastavro modules; skip re-exports of the same object
        inv.append((f"{mod.__name__}.{name}", tn, id(val)))
byid = {}
for n, tn, i in inv:
    byid.setdefault(i, []).append((n, tn))
out["mutable_globals"] = sorted(min(v)[0] + ":" + min(v)[1] for v in byid.values())
out["mutable_defaults"] = sorted(set(defaults))

# (iii) shared write sites, by an ast walk (fail closed) --------------------------------------
MUTATORS = {"append", "extend", "insert", "pop", "remove", "clear", "update", "setdefault", "add", "discard",
            "popitem", "sort", "reverse", "__setitem__", "__delitem__"}
sites = []
for mod in mods:
    fn = getattr(mod, "__file__", "")
    if not fn.endswith(".py"):
        continue
    tree = ast.parse(open(fn).read())
    modlevel = set()
    for st in tree.body:
        for t in ast.walk(st) if isinstance(st, (ast.Assign, ast.AnnAssign, ast.AugAssign, ast.Import, ast.ImportFrom, ast.Try, ast.If)) else []:
            if isinstance(t, ast.Name) and isinstance(t.ctx, ast.Store):
                modlevel.add(t.id)
            if isinstance(t, ast.alias):
                modlevel.add((t.asname or t.name).split(".")[0])
    short = os.path.relpath(fn, root)

    def base_name(e):
        while isinstance(e, (ast.Attribute, ast.Subscript)):
            e = e.value
        return e.id if isinstance(e, ast.Name) else None

    for f in ast.walk(tree):
        if not isinstance(f, (ast.FunctionDef, ast.AsyncFunctionDef)):
            continue
        params = {a.arg for a in f.args.args + f.args.kwonlyargs + f.args.posonlyargs}
        if f.args.vararg: params.add(f.args.vararg.arg)
        if f.args.kwarg: params.add(f.args.kwarg.arg)
        # parameters whose default is a mutable literal
        pos = f.args.posonlyargs + f.args.args
        mut_params = set()
        for a, d in list(zip(pos[len(pos) - len(f.args.defaults):], f.args.defaults)) + \
                [(a, d) for a, d in zip(f.args.kwonlyargs, f.args.kw_defaults) if d is not None]:
            if isinstance(d, (ast.Dict, ast.List, ast.Set)) or (isinstance(d, ast.Call)):
                mut_params.add(a.arg)
        local = set(params)
        for n in ast.walk(f):
            if isinstance(n, ast.Name) and isinstance(n.ctx, ast.Store):
                local.add(n.id)
        globals_decl = set()
        for n in ast.walk(f):
            if isinstance(n, (ast.Global, ast.Nonlocal)):
                globals_decl.update(n.names)
                sites.append(f"{short}:{f.name}: global {','.join(n.names)}")
        local -= globals_decl
        for n in ast.walk(f):
            targets = []
            if isinstance(n, ast.Assign):
                targets = n.targets
            elif isinstance(n, (ast.AugAssign, ast.AnnAssign)):
                targets = [n.target]
            elif isinstance(n, ast.Delete):
                targets = n.targets
            for t in targets:
                for tt in (t.elts if isinstance(t, (ast.Tuple, ast.List)) else [t]):
                    if isinstance(tt, (ast.Attribute, ast.Subscript)):
                        b = base_name(tt)
                        if b is not None and b not in local and b in modlevel:
                            sites.append(f"{short}:{f.name}: store {ast.unparse(tt)}")
                        if b in mut_params:
                            sites.append(f"{short}:{f.name}: store into defaulted parameter {ast.unparse(tt)}")
            if isinstance(n, ast.Call) and isinstance(n.func, ast.Attribute) and n.func.attr in MUTATORS:
                b = base_name(n.func.value)
                if b is not None and b not in local and b in modlevel:
                    sites.append(f"{short}:{f.name}: call {ast.unparse(n.func)}")
                if b in mut_params:
                    sites.append(f"{short}:{f.name}: call on defaulted parameter {ast.unparse(n.func)}")
out["shared_write_sites"] = sorted(set(sites))
json.dump(out, sys.stdout)
