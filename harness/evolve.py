"""Reader schemas derived from a writer schema by compositions of evolution steps applied at random depth (C08).

The writer's raw schema is first brought into a *pinned* form (every named definition carries its short
name and an explicit namespace, every by-name reference is a Ref(fullname) token) so that subtrees can be
moved, removed and renamed without changing what a name means; `finalize` spells it back as raw JSON
(dropping redundant namespaces / using short references at random) and the result is validated with
fastavro.parse_schema.  Every random choice comes from the rng passed in."""
import copy, json

PRIMS = ["null", "boolean", "int", "long", "float", "double", "bytes", "string"]
NAMED = ("record", "error", "enum", "fixed")
PROMOTE = {"int": ["long", "float", "double"], "long": ["float", "double"], "float": ["double"],
           "string": ["bytes"], "bytes": ["string"]}
DEMOTE = {"long": ["int"], "float": ["int", "long"], "double": ["float", "long", "int"], "int": ["string", "boolean", "bytes"],
          "string": ["int", "double"], "bytes": ["long"], "boolean": ["int"], "null": ["int", "string"]}


class Invalid(Exception):
    pass


class Ref:
    __slots__ = ("full",)

    def __init__(self, full):
        self.full = full

    def __deepcopy__(self, memo):
        return Ref(self.full)

    def __repr__(self):
        return "Ref(%r)" % self.full


def full_of(d):
    return (d["namespace"] + "." + d["name"]) if d.get("namespace") else d["name"]


def to_pinned(s, ns=""):
    if isinstance(s, str):
        if s in PRIMS:
            return s
        return Ref(s if "." in s or not ns else ns + "." + s)
    if isinstance(s, list):
        return [to_pinned(b, ns) for b in s]
    d = dict(s)
    t = d["type"]
    if t in NAMED:
        name = d["name"]
        if "." in name:
            nsp, short = name.rsplit(".", 1)
        else:
            nsp, short = (d.get("namespace", ns) or ""), name
        d["name"], d["namespace"] = short, nsp
        if t in ("record", "error"):
            fs = []
            for f in d.get("fields", []):
                f2 = dict(f)
                f2["type"] = to_pinned(f["type"], nsp)
                fs.append(f2)
            d["fields"] = fs
    elif t == "array":
        d["items"] = to_pinned(d["items"], ns)
    elif t == "map":
        d["values"] = to_pinned(d["values"], ns)
    return d


def finalize(s, rng, ns=""):
    """pinned tree -> raw JSON schema"""
    if isinstance(s, Ref):
        full = s.full
        if "." in full:
            nsp, short = full.rsplit(".", 1)
            return short if (nsp == ns and rng.random() < 0.5) else full
        if ns:
            raise Invalid("a null-namespace type cannot be referenced from namespace %r" % ns)
        return full
    if isinstance(s, str):
        return s
    if isinstance(s, list):
        return [finalize(b, rng, ns) for b in s]
    d = dict(s)
    t = d["type"]
    if t in NAMED:
        nsp = d.get("namespace", "")
        r = rng.random()
        if nsp == ns and r < 0.5:
            del d["namespace"]
        elif nsp and r < 0.7:
            d["name"] = nsp + "." + d["name"]
            del d["namespace"]
        if t in ("record", "error"):
            fs = []
            for f in d["fields"]:
                f2 = dict(f)
                f2["type"] = finalize(f["type"], rng, nsp)
                fs.append(f2)
            d["fields"] = fs
    elif t == "array":
        d["items"] = finalize(d["items"], rng, ns)
    elif t == "map":
        d["values"] = finalize(d["values"], rng, ns)
    return d


class Site:
    """a position holding a schema: holder[key]"""
    __slots__ = ("holder", "key", "depth", "field", "direct", "outer")

    def __init__(self, holder, key, depth, field=None, direct=False, outer=()):
        # field = the closest enclosing record field (its default constrains the type); direct = this IS the field's type;
        # outer = the record fields enclosing that one (their JSON defaults contain a value of this type, too)
        self.holder, self.key, self.depth, self.field, self.direct, self.outer = holder, key, depth, field, direct, outer

    def get(self):
        return self.holder[self.key]

    def set(self, v):
        self.holder[self.key] = v


def sites(top):
    """all type positions of the pinned tree held in top[0]"""
    out = []

    def walk(holder, key, depth, field=None, direct=False, outer=()):
        out.append(Site(holder, key, depth, field, direct, outer))
        s = holder[key]
        if isinstance(s, list):
            for i in range(len(s)):
                walk(s, i, depth + 1, field, False, outer)
        elif isinstance(s, dict):
            t = s["type"]
            if t == "array":
                walk(s, "items", depth + 1, field, False, outer)
            elif t == "map":
                walk(s, "values", depth + 1, field, False, outer)
            elif t in ("record", "error"):
                for f in s["fields"]:
                    walk(f, "type", depth + 1, f, True, outer + ((field,) if field is not None else ()))
    walk(top, 0, 0)
    return out


def kind(s):
    if isinstance(s, Ref):
        return "ref"
    if isinstance(s, str):
        return "prim"
    if isinstance(s, list):
        return "union"
    t = s["type"]
    if t in PRIMS:
        return "primdict"
    return "record" if t == "error" else t


def collect_defs(s, out):
    if isinstance(s, list):
        for b in s:
            collect_defs(b, out)
    elif isinstance(s, dict):
        t = s["type"]
        if t in NAMED:
            out.setdefault(full_of(s), s)
        if t in ("record", "error"):
            for f in s["fields"]:
                collect_defs(f["type"], out)
        elif t == "array":
            collect_defs(s["items"], out)
        elif t == "map":
            collect_defs(s["values"], out)
    return out


def normalize_defs(s, defs, placed, moved):
    """definition at the first occurrence of every name (in parse order), references afterwards"""
    if isinstance(s, Ref):
        if s.full in placed or s.full not in defs:
            return s
        placed.add(s.full)
        moved.append(s.full)
        d = copy.deepcopy(defs[s.full])
        return normalize_children(d, defs, placed, moved)
    if isinstance(s, list):
        return [normalize_defs(b, defs, placed, moved) for b in s]
    if isinstance(s, dict):
        if s["type"] in NAMED:
            full = full_of(s)
            if full in placed:
                moved.append(full)
                return Ref(full)
            placed.add(full)
        return normalize_children(s, defs, placed, moved)
    return s


def normalize_children(d, defs, placed, moved):
    t = d["type"]
    if t in ("record", "error"):
        for f in d["fields"]:
            f["type"] = normalize_defs(f["type"], defs, placed, moved)
    elif t == "array":
        d["items"] = normalize_defs(d["items"], defs, placed, moved)
    elif t == "map":
        d["values"] = normalize_defs(d["values"], defs, placed, moved)
    return d


def rename_refs(s, old, new):
    if isinstance(s, Ref):
        if s.full == old:
            s.full = new
    elif isinstance(s, list):
        for b in s:
            rename_refs(b, old, new)
    elif isinstance(s, dict):
        t = s["type"]
        if t in ("record", "error"):
            for f in s["fields"]:
                rename_refs(f["type"], old, new)
        elif t == "array":
            rename_refs(s["items"], old, new)
        elif t == "map":
            rename_refs(s["values"], old, new)


class Evolver:
    WEIGHT = {"change_kind": 0.15, "demote": 0.5, "to_primdict": 0.4, "wrap_union": 0.7, "annotate": 0.5}
    STEPS = ["add_field_default", "add_field_nodefault", "remove_field", "reorder_fields", "rename_field_alias",
             "rename_field_noalias", "promote", "demote", "enum_add_symbol", "enum_remove_symbol", "enum_reorder",
             "fixed_size", "rename_type_alias", "rename_type_noalias", "move_definition", "wrap_union", "unwrap_union",
             "reorder_union", "union_add_branch", "union_remove_branch", "change_namespace", "change_kind",
             "field_alias_swap", "drop_default", "to_primdict", "writer_alias_field", "writer_alias_type", "annotate"]

    def __init__(self, rng):
        self.rng = rng
        self.counter = 0

    def fresh(self, p):
        self.counter += 1
        return "%s%d_" % (p, self.counter)

    # ------------------------------------------------------------ new field types with JSON defaults
    def new_type(self, defs):
        rng = self.rng
        choices = [
            ("int", 7), ("long", 1 << 40), ("float", 1.5), ("float", 3), ("double", 2.5), ("double", 4), ("string", "dflt"),
            ("string", "hé"), ("bytes", "ÿab"), ("bytes", "xy"), ("boolean", True), ("null", None),
            (["null", "string"], None), (["string", "null"], "x"), (["null", "int"], None),
            ({"type": "array", "items": "int"}, [1, 2]), ({"type": "array", "items": "string"}, []),
            ({"type": "map", "values": "long"}, {"a": 1}), ({"type": "map", "values": "bytes"}, {"k": "þ"}),
            ({"type": "int"}, 0), ({"type": "string", "logicalType": "zzz"}, ""),
            # union-typed fields whose default belongs to a branch that is not the first
            (["null", "bytes"], "ÿ"), (["int", "bytes"], "ab"), (["null", "double"], 3), (["null", "float", "string"], 1.5),
            (["null", {"type": "array", "items": "bytes"}], ["ÿ", ""]), (["long", {"type": "map", "values": "bytes"}], {"k": "þ"}),
            (["null", {"type": "array", "items": "float"}], [1, 2.5]), (["boolean", "null", "string"], None),
        ]
        r = rng.random()
        if r < 0.6:
            t, d = rng.choice(choices)
            return copy.deepcopy(t), copy.deepcopy(d)
        ns = rng.choice(["", "", "ns", "a.b"])
        if r < 0.64:
            # named types under a non-first union branch
            k = rng.choice(["fixed", "enum", "record", "array-of-fixed"])
            if k == "fixed":
                return ["null", {"type": "fixed", "name": self.fresh("NF"), "namespace": ns, "size": 2}], "\u0001þ"
            if k == "enum":
                return ["int", {"type": "enum", "name": self.fresh("NE"), "namespace": ns, "symbols": ["X", "Y"]}], "Y"
            if k == "record":
                return (["null", {"type": "record", "name": self.fresh("NR"), "namespace": ns, "fields": [
                    {"name": "a", "type": "float", "default": 2}, {"name": "b", "type": "bytes"}]}], {"b": "ÿ"})
            return ["null", {"type": "array", "items": {"type": "fixed", "name": self.fresh("NF"), "namespace": ns, "size": 1}}], ["þ", "a"]
        if r < 0.7:
            return {"type": "enum", "name": self.fresh("NE"), "namespace": ns, "symbols": ["X", "Y", "Z"]}, rng.choice(["X", "Y"])
        if r < 0.78:
            return {"type": "fixed", "name": self.fresh("NF"), "namespace": ns, "size": 2}, "\u0001þ"
        if r < 0.88:
            return ({"type": "record", "name": self.fresh("NR"), "namespace": ns, "fields": [
                {"name": "a", "type": "int", "default": 5}, {"name": "b", "type": "bytes"}]},
                rng.choice([{"a": 1, "b": "ÿ"}, {"b": "q"}]))
        if defs:
            full = rng.choice(sorted(defs))
            d = defs[full]
            if d["type"] == "enum":
                return Ref(full), d["symbols"][0]
            if d["type"] == "fixed":
                return Ref(full), "\u0000" * d["size"]
            return ["null", Ref(full)], None
        return "int", 1

    # ------------------------------------------------------------ steps; each returns a description or None
    def pick(self, top, pred):
        c = [s for s in sites(top) if pred(s)]
        self.last_site = self.rng.choice(c) if c else None
        return self.last_site

    KEEP_ENCLOSING_DEFAULT = {"annotate", "writer_alias_type", "rename_type_alias", "rename_type_noalias", "change_namespace", "reorder_fields", "reorder_union",
                              "enum_add_symbol", "enum_reorder", "to_primdict", "promote", "demote", "enum_remove_symbol",
                              "move_definition"}
    PURE = {"annotate", "writer_alias_type", "rename_type_alias", "rename_type_noalias", "change_namespace", "reorder_fields", "reorder_union", "enum_add_symbol",
            "enum_reorder", "to_primdict", "move_definition"}

    def step(self, name, top, defs):
        self.last_site = None
        desc = self.step1(name, top, defs)
        st = self.last_site
        if desc is not None and st is not None and name not in self.KEEP_ENCLOSING_DEFAULT \
                and st.field is not None and "default" in st.field:
            del st.field["default"]       # the enclosing field's JSON default may no longer fit the changed type
        if desc is not None and st is not None and name not in self.PURE:
            for f in st.outer:
                f.pop("default", None)
        return desc

    def step1(self, name, top, defs):
        rng = self.rng
        is_rec = lambda s: kind(s.get()) == "record"
        if name in ("add_field_default", "add_field_nodefault"):
            st = self.pick(top, is_rec)
            if not st:
                return None
            rec = st.get()
            t, d = self.new_type(defs)
            f = {"name": self.fresh("nf"), "type": t}
            if name == "add_field_default":
                f["default"] = d
            rec["fields"].insert(rng.randrange(len(rec["fields"]) + 1), f)
            return "%s@%d:%s" % (name, st.depth, kind(t))
        if name == "remove_container_field":
            # drop a field whose type contains an array or a map (so that the skip functions run on it), at any depth
            cands = [(s, i) for s in sites(top) if is_rec(s) for i, f in enumerate(s.get()["fields"]) if has_container(f["type"])]
            if not cands:
                return None
            st, i = rng.choice(cands)
            self.last_site = st
            f = st.get()["fields"].pop(i)
            return "remove_container_field@%d:%s%s" % (st.depth, kind(f["type"]), ":ahead" if i < len(st.get()["fields"]) else ":last")
        if name == "remove_field":
            st = self.pick(top, lambda s: is_rec(s) and len(s.get()["fields"]) >= 1)
            if not st:
                return None
            fs = st.get()["fields"]
            # prefer a field ahead of a retained one
            i = rng.randrange(len(fs) - 1) if len(fs) >= 2 and rng.random() < 0.8 else rng.randrange(len(fs))
            f = fs.pop(i)
            return "remove_field@%d:%s%s" % (st.depth, kind(f["type"]), ":ahead" if i < len(fs) else ":last")
        if name == "reorder_fields":
            st = self.pick(top, lambda s: is_rec(s) and len(s.get()["fields"]) >= 2)
            if not st:
                return None
            fs = st.get()["fields"]
            old = list(fs)
            for _ in range(5):
                rng.shuffle(fs)
                if fs != old:
                    break
            return "reorder_fields@%d" % st.depth
        if name in ("rename_field_alias", "rename_field_noalias", "field_alias_swap", "drop_default"):
            st = self.pick(top, lambda s: is_rec(s) and len(s.get()["fields"]) >= 1)
            if not st:
                return None
            f = rng.choice(st.get()["fields"])
            if name == "drop_default":
                if "default" not in f:
                    return None
                del f["default"]
                return "drop_default@%d" % st.depth
            old = f["name"]
            f["name"] = old + "_r"
            if name == "rename_field_alias":
                f["aliases"] = [a for a in f.get("aliases", [])] + [old]
                if rng.random() < 0.3:
                    f["aliases"].insert(0, "unrelated_alias")
            elif name == "field_alias_swap":
                # the old name becomes the alias of ANOTHER (new) field: the writer's field must now feed that one
                f2 = {"name": self.fresh("al"), "type": copy.deepcopy(f["type"]), "aliases": [old]}
                if "default" in f:
                    f2["default"] = copy.deepcopy(f["default"])
                st.get()["fields"].append(f2)
            return "%s@%d" % (name, st.depth)
        if name == "annotate":
            # an (unknown) logicalType on an array / map / named-type node: neither the code nor the rules look at it
            st = self.pick(top, lambda s: kind(s.get()) in ("record", "enum", "fixed", "array", "map") and "logicalType" not in s.get())
            if not st:
                return None
            st.get()["logicalType"] = rng.choice(ANNOTATIONS)
            return "annotate@%d:%s" % (st.depth, kind(st.get()))
        if name in ("promote", "demote", "to_primdict"):
            table = PROMOTE if name == "promote" else DEMOTE
            def ok(s):
                v = s.get()
                k = kind(v)
                if name == "to_primdict":
                    return k == "prim"
                return (k == "prim" and v in table) or (k == "primdict" and v["type"] in table)
            st = self.pick(top, ok)
            if not st:
                return None
            v = st.get()
            if name == "to_primdict":
                st.set({"type": v})
                return "to_primdict@%d" % st.depth
            src = v if isinstance(v, str) else v["type"]
            dst = rng.choice(table[src])
            if isinstance(st.holder, list) and any((b == dst or (isinstance(b, dict) and b.get("type") == dst)) for b in st.holder):
                return None      # would duplicate a union branch
            if isinstance(v, str):
                st.set(dst if rng.random() < 0.8 else {"type": dst})
            else:
                v["type"] = dst
            if st.field is not None and "default" in st.field:
                if st.direct:
                    self.fix_default(st.field, dst)
                else:
                    del st.field["default"]
            return "%s@%d:%s->%s%s" % (name, st.depth, src, dst, ":in-union" if isinstance(st.holder, list) else "")
        if name in ("enum_add_symbol", "enum_remove_symbol", "enum_reorder"):
            st = self.pick(top, lambda s: kind(s.get()) == "enum")
            if not st:
                return None
            e = st.get()
            syms = e["symbols"] = list(e["symbols"])
            if name == "enum_add_symbol":
                syms.insert(rng.randrange(len(syms) + 1), self.fresh("S"))
                if rng.random() < 0.3 and "default" not in e:
                    e["default"] = rng.choice(syms)
                return "enum_add_symbol@%d" % st.depth
            if name == "enum_reorder":
                if len(syms) < 2:
                    return None
                syms.reverse()
                return "enum_reorder@%d" % st.depth
            if len(syms) < 2:
                return None
            gone = syms.pop(rng.randrange(len(syms)))
            r = rng.random()
            had = "default" in e
            if had and r < 0.5:
                del e["default"]          # the WRITER's enum keeps its default, the reader's has none
            elif e.get("default") == gone or (not had and r < 0.5):
                e["default"] = rng.choice(syms)
            if st.field is not None and "default" in st.field:
                if not st.direct:
                    del st.field["default"]
                elif st.field["default"] == gone:
                    st.field["default"] = syms[0]
            return "enum_remove_symbol@%d:%s" % (st.depth, "default" if "default" in e else "nodefault")
        if name == "fixed_size":
            st = self.pick(top, lambda s: kind(s.get()) == "fixed")
            if not st:
                return None
            fx = st.get()
            fx["size"] = fx["size"] + rng.choice([1, 2]) if fx["size"] == 0 or rng.random() < 0.5 else fx["size"] - 1
            if st.field is not None and "default" in st.field:
                del st.field["default"]
            return "fixed_size@%d" % st.depth
        if name == "writer_alias_field":
            # the reader calls a field by a name that is only an alias of the WRITER's field (writer-side aliases do not
            # count): writer-only field + reader-only field, with / without default, same or another type
            cands = [(s, f) for s in sites(top) if is_rec(s) for f in s.get()["fields"] if f.get("aliases")]
            if not cands:
                return None
            st, f = rng.choice(cands)
            self.last_site = st
            alias = rng.choice(f["aliases"])
            if any(g is not f and (g["name"] == alias or alias in g.get("aliases", [])) for g in st.get()["fields"]):
                return None
            f["name"] = alias
            del f["aliases"]
            mode = rng.choice(["same", "same", "nodefault", "othertype-default", "othertype-nodefault"])
            if mode == "nodefault":
                f.pop("default", None)
            elif mode.startswith("othertype"):
                nt, nd = self.new_type(defs)
                f["type"] = nt
                f.pop("default", None)
                if mode == "othertype-default":
                    f["default"] = nd
            return "writer_alias_field@%d:%s%s" % (st.depth, mode, ":default" if "default" in f else ":nodefault")
        if name == "writer_alias_type":
            # the reader calls a named type by a name that is only an alias of the WRITER's type
            st = self.pick(top, lambda s: kind(s.get()) in ("record", "enum", "fixed") and s.get().get("aliases"))
            if not st:
                return None
            d = st.get()
            old = full_of(d)
            alias = rng.choice(d["aliases"])
            if "." in alias:
                d["namespace"], d["name"] = alias.rsplit(".", 1)
            else:
                d["name"] = alias
            del d["aliases"]
            new = full_of(d)
            if new == old or new in defs:
                return None
            rename_refs(top[0], old, new)
            if old in defs:
                defs[new] = defs.pop(old)
            return "writer_alias_type@%d:%s" % (st.depth, kind(d))
        if name in ("rename_type_alias", "rename_type_noalias", "change_namespace", "change_kind"):
            st = self.pick(top, lambda s: kind(s.get()) in ("record", "enum", "fixed"))
            if not st:
                return None
            d = st.get()
            old = full_of(d)
            if name == "change_namespace":
                d["namespace"] = rng.choice([x for x in ["", "ns", "a.b", "other.ns"] if x != d.get("namespace", "")])
            elif name == "change_kind":
                k = kind(d)
                keep = {x: d[x] for x in ("name", "namespace", "aliases") if x in d}
                d.clear()
                d.update(keep)
                if k == "record":
                    d.update(type="enum", symbols=["A", "B"])
                elif k == "enum":
                    d.update(type=rng.choice(["record", "fixed"]))
                    if d["type"] == "record":
                        d["fields"] = [{"name": "f0", "type": "int"}]
                    else:
                        d["size"] = 1
                else:
                    d.update(type="record", fields=[])
                if st.field is not None and "default" in st.field:
                    del st.field["default"]
                return "change_kind@%d:%s" % (st.depth, k)
            else:
                d["name"] = d["name"] + "v"
                if name == "rename_type_alias":
                    d["aliases"] = list(d.get("aliases", [])) + [old if rng.random() < 0.5 else old.rsplit(".", 1)[-1]]
            new = full_of(d)
            rename_refs(top[0], old, new)
            if old in defs:
                defs[new] = defs.pop(old)
            return "%s@%d:%s" % (name, st.depth, kind(d))
        if name == "move_definition":
            # a record in which a named type is defined in one field and referenced in a later one: swap the two fields
            cands = []
            for st in sites(top):
                if is_rec(st):
                    fs = st.get()["fields"]
                    for i, f in enumerate(fs):
                        inner = collect_defs(f["type"], {})
                        for j in range(i + 1, len(fs)):
                            if any(r in inner for r in refs_in(fs[j]["type"])):
                                cands.append((st, i, j))
            if not cands:
                return None
            st, i, j = rng.choice(cands)
            fs = st.get()["fields"]
            if rng.random() < 0.5:
                fs[i], fs[j] = fs[j], fs[i]
            else:
                fs.insert(i, fs.pop(j))
            return "move_definition@%d" % st.depth
        if name == "wrap_union":
            st = self.pick(top, lambda s: kind(s.get()) != "union" and not isinstance(s.holder, list))
            if not st:
                return None
            v = st.get()
            other = rng.choice(["null", "null", "string", "long"])
            if v == other or (isinstance(v, dict) and v.get("type") == other):
                other = "boolean" if v != "boolean" else "null"
            u = [other, v] if rng.random() < 0.6 else [v, other]
            if rng.random() < 0.2:
                u.append("double" if all(b != "double" and not (isinstance(b, dict) and b.get("type") == "double") for b in u) else "boolean")
                u = dedup_union(u)
            st.set(u)
            if st.field is not None and "default" in st.field:
                del st.field["default"]
            return "wrap_union@%d:%s" % (st.depth, kind(v))
        if name == "unwrap_union":
            st = self.pick(top, lambda s: kind(s.get()) == "union" and len(s.get()) >= 1)
            if not st:
                return None
            u = st.get()
            nn = [b for b in u if b != "null"] or u
            st.set(rng.choice(nn))
            if st.field is not None and "default" in st.field:
                del st.field["default"]
            return "unwrap_union@%d" % st.depth
        if name in ("reorder_union", "union_add_branch", "union_remove_branch"):
            st = self.pick(top, lambda s: kind(s.get()) == "union")
            if not st:
                return None
            u = st.get()
            if name == "reorder_union":
                if len(u) < 2:
                    return None
                old = list(u)
                for _ in range(5):
                    rng.shuffle(u)
                    if u != old:
                        break
            elif name == "union_add_branch":
                have = {b if isinstance(b, str) else (b.get("type") if isinstance(b, dict) else None) for b in u}
                c = [p for p in PRIMS if p not in have]
                if not c:
                    return None
                u.insert(rng.randrange(len(u) + 1), rng.choice(c))
            else:
                if len(u) < 2:
                    return None
                u.pop(rng.randrange(len(u)))
            if st.field is not None and "default" in st.field:
                del st.field["default"]
            return "%s@%d" % (name, st.depth)
        raise ValueError(name)

    def fix_default(self, field, dst):
        d = field["default"]
        good = {"int": isinstance(d, int) and not isinstance(d, bool) and -(1 << 31) <= d < (1 << 31),
                "long": isinstance(d, int) and not isinstance(d, bool),
                "float": isinstance(d, (int, float)) and not isinstance(d, bool),
                "double": isinstance(d, (int, float)) and not isinstance(d, bool),
                "string": isinstance(d, str), "bytes": isinstance(d, str), "boolean": isinstance(d, bool), "null": d is None}
        if not good.get(dst, False):
            del field["default"]

    # ------------------------------------------------------------ driver
    def evolve(self, raw, nsteps=None, only=None, first=None):
        """returns (reader raw schema, [step descriptions]) ; raises Invalid when nothing valid came out"""
        import fastavro
        rng = self.rng
        top = {0: to_pinned(json.loads(json.dumps(raw)))}
        defs = {k: copy.deepcopy(v) for k, v in collect_defs(top[0], {}).items()}
        applied = []
        n = nsteps if nsteps is not None else rng.choice([1, 1, 1, 2, 2, 3, 4, 6])
        for _slot in range(n):
            order = [first] if (first and _slot == 0) else [only] if only else sorted(self.STEPS, key=lambda s: rng.random() ** (1.0 / self.WEIGHT.get(s, 1.0)), reverse=True)
            for name in order:
                backup = copy.deepcopy(top[0])
                for k, v in collect_defs(top[0], {}).items():
                    defs[k] = copy.deepcopy(v)
                try:
                    desc = self.step(name, top, defs)
                    if desc is None:
                        top[0] = backup
                        continue
                    moved = []
                    top[0] = normalize_defs(top[0], defs, set(), moved)
                    if moved:
                        desc += "+defs-moved"
                    out = finalize(top[0], rng)
                    fastavro.parse_schema(json.loads(json.dumps(out)), {})
                except Exception:
                    top[0] = backup
                    continue
                applied.append(desc)
                break
        if not applied:
            raise Invalid("no step applicable")
        out = json.loads(json.dumps(finalize(top[0], rng)))
        fastavro.parse_schema(copy.deepcopy(out), {})
        return out, applied


def add_writer_aliases(raw, rng, pf=0.35, pt=0.25):
    """aliases on the fields / named types of a (raw) WRITER schema, in place; returns how many were added"""
    n = 0

    def walk(s):
        nonlocal n
        if isinstance(s, list):
            for b in s:
                walk(b)
        elif isinstance(s, dict):
            t = s.get("type")
            if t in NAMED and "aliases" not in s and rng.random() < pt:
                s["aliases"] = ["WA_" + s["name"].rsplit(".", 1)[-1]]
                n += 1
            if t in ("record", "error"):
                for f in s.get("fields", []):
                    if "aliases" not in f and rng.random() < pf:
                        f["aliases"] = ["wa_" + f["name"]] + (["wb_" + f["name"]] if rng.random() < 0.2 else [])
                        n += 1
                    walk(f["type"])
            elif t == "array":
                walk(s["items"])
            elif t == "map":
                walk(s["values"])
    walk(raw)
    return n


ANNOTATIONS = ["x-note", "x-unit", "custom-lt"]


def add_writer_annotations(raw, rng, p=0.3):
    """an (unknown) logicalType on array / map / named-type nodes of a (raw) WRITER schema, in place"""
    n = 0

    def walk(s):
        nonlocal n
        if isinstance(s, list):
            for b in s:
                walk(b)
        elif isinstance(s, dict):
            t = s.get("type")
            if (t in NAMED or t in ("array", "map")) and "logicalType" not in s and rng.random() < p:
                s["logicalType"] = rng.choice(ANNOTATIONS)
                n += 1
            if t in ("record", "error"):
                for f in s.get("fields", []):
                    walk(f["type"])
            elif t == "array":
                walk(s["items"])
            elif t == "map":
                walk(s["values"])
    walk(raw)
    return n


def add_writer_enum_defaults(raw, rng, p=0.6):
    """a default on the enums of a (raw) WRITER schema that have none, in place"""
    n = 0

    def walk(s):
        nonlocal n
        if isinstance(s, list):
            for b in s:
                walk(b)
        elif isinstance(s, dict):
            t = s.get("type")
            if t == "enum" and "default" not in s and rng.random() < p:
                s["default"] = rng.choice(s["symbols"])
                n += 1
            if t in ("record", "error"):
                for f in s.get("fields", []):
                    walk(f["type"])
            elif t == "array":
                walk(s["items"])
            elif t == "map":
                walk(s["values"])
    walk(raw)
    return n


def has_container(s):
    if isinstance(s, list):
        return any(has_container(b) for b in s)
    if isinstance(s, dict):
        t = s["type"]
        if t in ("array", "map"):
            return True
        if t in ("record", "error"):
            return any(has_container(f["type"]) for f in s["fields"])
    return False


def refs_in(s):
    out = []

    def walk(x):
        if isinstance(x, Ref):
            out.append(x.full)
        elif isinstance(x, list):
            for b in x:
                walk(b)
        elif isinstance(x, dict):
            t = x["type"]
            if t in ("record", "error"):
                for f in x["fields"]:
                    walk(f["type"])
            elif t == "array":
                walk(x["items"])
            elif t == "map":
                walk(x["values"])
    walk(s)
    return out


def dedup_union(u):
    seen, out = set(), []
    for b in u:
        k = b if isinstance(b, str) else (b["type"] if isinstance(b, dict) and b["type"] in PRIMS else id(b))
        if k in seen:
            continue
        seen.add(k)
        out.append(b)
    return out
