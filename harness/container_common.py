"""Shared machinery for the container-file properties (C04-C07): a frame splitter, stdlib codecs,
re-framing between codecs, implementation runners, model expressions."""
import bz2, io, json, lzma, zlib
from . import core, gallina as G, codec_common as CC, gen

IMPORTS = CC.IMPORTS.replace("model.Harness.", "model.Container model.Harness.")
CODECS = ["null", "deflate", "bzip2", "xz"]


def compress(codec, raw, level=None):
    if codec == "null":
        return raw
    if codec == "deflate":
        return (zlib.compress(raw, level) if level is not None else zlib.compress(raw))[2:-1]
    if codec == "bzip2":
        return bz2.compress(raw)
    if codec == "xz":
        return lzma.compress(raw)
    raise ValueError(codec)


def decompress(codec, p):
    if codec == "null":
        return p
    if codec == "deflate":
        return zlib.decompress(p, -15)
    if codec == "bzip2":
        return bz2.decompress(p)
    if codec == "xz":
        return lzma.decompress(p)
    raise ValueError(codec)


def zz(n):
    n = (n << 1) ^ (n >> 63)
    out = bytearray()
    while n & ~0x7F:
        out.append((n & 0x7F) | 0x80)
        n >>= 7
    out.append(n)
    return bytes(out)


def rd_long(data, pos):
    n, shift = 0, 0
    while True:
        if pos >= len(data):
            raise EOFError
        b = data[pos]
        pos += 1
        n |= (b & 0x7F) << shift
        shift += 7
        if not b & 0x80:
            break
    return (n >> 1) ^ -(n & 1), pos


class Malformed(Exception):
    pass


def split_header(data):
    """(header_len, meta dict(bytes->bytes, insertion order), sync).  Trusted frame splitter (varints + slices only)."""
    if len(data) < 4:
        raise Malformed("short")
    pos = 4
    meta = {}
    try:
        while True:
            c, pos = rd_long(data, pos)
            if c == 0:
                break
            if c < 0:
                c = -c
                _, pos = rd_long(data, pos)
            for _ in range(c):
                l, pos = rd_long(data, pos)
                if l < 0 or pos + l > len(data):
                    raise Malformed("header key length")          # garbage (a negative length would walk backwards for ever)
                k = data[pos:pos + l]; pos += l
                l, pos = rd_long(data, pos)
                if l < 0 or pos + l > len(data):
                    raise Malformed("header value length")
                v = data[pos:pos + l]; pos += l
                meta[bytes(k)] = bytes(v)
    except EOFError:
        raise Malformed("header")
    if pos + 16 > len(data):
        raise Malformed("sync")
    return pos + 16, meta, data[pos:pos + 16]


def split_blocks(data, pos):
    """[(count, payload, marker, start, end)] of complete blocks from pos; raises Malformed on a partial block."""
    out = []
    while pos < len(data):
        start = pos
        try:
            c, pos = rd_long(data, pos)
            l, pos = rd_long(data, pos)
        except EOFError:
            raise Malformed("block head")
        if l < 0 or pos + l + 16 > len(data):
            raise Malformed("block body")
        out.append((c, data[pos:pos + l], data[pos + l:pos + l + 16], start, pos + l + 16))
        pos += l + 16
    return out


def reframe(data, f):
    """apply f to every block payload, keep everything else"""
    hl, meta, sync = split_header(data)
    out = bytearray(data[:hl])
    for c, p, m, _, _ in split_blocks(data, hl):
        q = f(p)
        out += zz(c) + zz(len(q)) + q + m
    return bytes(out)


def to_null(data, codec):
    return data if codec == "null" else reframe(data, lambda p: decompress(codec, p))


def from_null(data, codec):
    return data if codec == "null" else reframe(data, lambda p: compress(codec, p))


def strip_markers(schema):
    if isinstance(schema, dict):
        return {k: v for k, v in schema.items() if k not in ("__fastavro_parsed", "__named_schemas")}
    if isinstance(schema, list):
        return [strip_markers(s) if isinstance(s, dict) else s for s in schema]
    return schema


PRIMS_ = ("null", "boolean", "int", "long", "float", "double", "bytes", "string")


def inline_named(schema, named, defined=None):
    """the self-contained form of a schema whose named types were parsed separately: every by-name reference whose definition
    does not occur earlier in the text is replaced by that definition (taken from the shared named_schemas table), at its
    FIRST use -- what a header must carry for the file to be readable on its own (independent of fastavro's own inliner)"""
    defined = set() if defined is None else defined
    if isinstance(schema, list):
        return [inline_named(b, named, defined) for b in schema]
    if isinstance(schema, str):
        if schema in PRIMS_ or schema in defined or schema not in named:
            return schema
        return inline_named(named[schema], named, defined)
    if isinstance(schema, dict):
        out = {}
        t = schema.get("type")
        if t in ("record", "error", "enum", "fixed"):
            defined.add(schema["name"])
        for k, v in schema.items():
            if k in ("__fastavro_parsed", "__named_schemas"):
                continue
            if k == "fields" and t in ("record", "error"):
                out[k] = [dict((fk, inline_named(fv, named, defined) if fk == "type" else fv) for fk, fv in f.items()) for f in v]
            elif k in ("items", "values") or (k == "type" and not isinstance(v, str)):
                out[k] = inline_named(v, named, defined)
            elif k == "type" and isinstance(v, str) and v not in PRIMS_ and v not in ("record", "error", "enum", "fixed", "array", "map"):
                out[k] = inline_named(v, named, defined)
            else:
                out[k] = v
        return out
    return schema


def expected_meta(schema_arg, codec, user_meta):
    """the metadata map the specification prescribes for the header, in the writer's insertion order
    (built with a plain dict: user entries, avro.schema = JSON text of the schema, avro.codec)"""
    m = dict(user_meta or {})
    m["avro.schema"] = json.dumps(strip_markers(schema_arg))
    m["avro.codec"] = codec
    return m


def meta_to_coq(meta):
    return G.clist("(%s, %s)" % (G.cstr(k), G.hx(v.encode())) for k, v in meta.items())


def hop_to_coq(op):
    k = op[0]
    if k == "write":
        return "(HWrite %s)" % G.py_to_coq(op[1])
    if k == "flush":
        return "HFlush"
    if k == "reopen":
        return "(HReopen %s)" % G.zlit(op[1])
    if k == "block":
        return "(HBlockRaw %s %s)" % (G.zlit(op[1]), G.hx(op[2]))
    raise ValueError(k)


def expr_history(parsed, named, meta, sync, si, ops, validator=False, wopts=None):
    return "run_history %s %s %s %s %s %s %s %s" % (
        G.wopts(**(wopts or {})), "true" if validator else "false", G.env_to_coq(named), G.schema_to_coq(parsed),
        meta_to_coq(meta), G.hx(sync), G.zlit(si), G.clist(hop_to_coq(o) for o in ops))


def parse_history(m):
    """'H:<hex>;status:<hex>;...' -> (header bytes, [(status, appended bytes)])"""
    parts = m.split(";")
    assert parts[0].startswith("H:")
    hdr = bytes.fromhex(parts[0][2:])
    steps = []
    for p in parts[1:]:
        if not p:
            continue
        st, h = p.split(":")
        steps.append((st, bytes.fromhex(h)))
    return hdr, steps


def expr_readfile(parsed, named, data, ropts=None):
    return "run_readfile %s %s %s %s" % (G.ropts(**(ropts or {})), G.env_to_coq(named), G.schema_to_coq(parsed), G.hx(data))


def impl_read_file(data, limit_s=30, **ropts):
    """records yielded before the reader stops, and how it stopped -- same text as run_readfile"""
    import fastavro
    out = []
    def go():
        r = fastavro.reader(io.BytesIO(data), **ropts)
        for rec in r:
            out.append(rec)
    try:
        core.with_timeout(go, limit_s)
        oc = "END"
    except core.Timeout:
        oc = "TIMEOUT"
    except Exception as e:
        oc = "RAISED"
    return "".join(G.show_py(v) + ";" for v in out) + "|" + oc, out


def impl_block_infos(data):
    import fastavro
    out = []
    def go():
        for b in fastavro.block_reader(io.BytesIO(data)):
            out.append((b.offset, b.size, b.num_records))
    try:
        core.with_timeout(go, 30)
        oc = "END"
    except core.Timeout:
        oc = "TIMEOUT"
    except Exception:
        oc = "RAISED"
    return "".join("%d,%d,%d;" % t for t in out) + "|" + oc


def gen_records(rng, parsed, named, n, hints=False):
    dg = gen.DataGen(rng, named, hints=hints, max_depth=3)
    return [dg.datum(parsed) for _ in range(n)]


def record_size(parsed, rec):
    w = CC.impl_write(parsed, rec)
    return len(w[1]) if w[0] == "ok" else None
